------------------------------ MODULE Timestamp ------------------------------
(***************************************************************************)
(* lib/pkcs9 + tsclient + timestampcache: obtaining a timestamp while      *)
(* signing (client part) and judging certificate validity at the attested  *)
(* time while verifying (verifier part).                                   *)
(* Client: one action per authority contacted (Try), preceded by the cache *)
(* lookup, followed by the self-check of TimestampAndMarshal.              *)
(***************************************************************************)
EXTENDS Integers, Sequences, FiniteSets, TLC, TimestampVerify

CONSTANTS Behaviours,   \* what an authority can answer
          MaxUrls,
          CacheModes,   \* subset of {"off", "miss", "hitGood", "hitGarbage", "hitWrong"}
          Variant       \* "code" | "NoNonceCheck" | "NoImprintCheck" | "AcceptRejected" | "NoTokenSigCheck" | "FirstFailAborts" | "OmitOnFailure" | "CacheSkipsSelfCheck" | "RememberPosition"

\* a reply is genuine iff granted, nonce echoed, imprint of THIS signature value, token correctly signed
Genuine(b) == b \in {"valid", "grantedWithMods"}

VARIABLES prior,      \* history of this (long-lived) client: "none" | "lastWon" = an earlier request was answered by the LAST
                      \* configured authority after every other one had failed. It must not matter.
          urls,       \* sequence of behaviours, one per configured authority, in configured order
          cache,
          k,          \* next authority to try (1-based)
          contacted,  \* authorities contacted so far, in order
          phase,      \* "start" | "trying" | "selfcheck" | "done"
          attached,   \* 0 = none, i = token of authority i, -1 = token from the cache
          attachedGenuine, \* is the attached token genuine for this signature
          failed      \* signing reported an error

vars == <<prior, urls, cache, k, contacted, phase, attached, attachedGenuine, failed>>

Accepts(b) ==   \* does the client's reply checking accept behaviour b
  \/ Genuine(b)
  \/ (Variant = "NoNonceCheck" /\ b \in {"wrongNonce", "noNonce"})
  \/ (Variant = "NoImprintCheck" /\ b = "wrongImprint")
  \/ (Variant = "AcceptRejected" /\ b \in {"rejected", "waiting", "revocationWarning", "statusUnknown"})
  \/ (Variant = "NoTokenSigCheck" /\ b = "badTokenSig")

\* would the final self-check (verify signature + timestamp against THIS signature value) pass
\* (a token shipped with a non-granting status is cryptographically fine, so the self-check cannot tell)
SelfCheckPasses(b) == Genuine(b) \/ b \in {"wrongNonce", "noNonce", "revocationWarning", "statusUnknown"}   \* the nonce is not part of what a verifier can check

Init ==
  /\ urls \in UNION {[1..n -> Behaviours] : n \in 1..MaxUrls}
  /\ cache \in CacheModes
  /\ prior \in {"none", "lastWon"} /\ (prior = "lastWon" => (Len(urls) > 1 /\ cache = "off"))
  \* (deviation "RememberPosition": the loop starts at the authority that answered last time)
  /\ k = (IF Variant = "RememberPosition" /\ prior = "lastWon" THEN Len(urls) ELSE 1) /\ contacted = <<>> /\ phase = "start" /\ attached = 0 /\ attachedGenuine = FALSE /\ failed = FALSE

CacheLookup ==
  /\ phase = "start"
  /\ IF cache \in {"hitGood", "hitWrong"}
       THEN /\ attached' = -1 /\ attachedGenuine' = (cache = "hitGood") /\ phase' = "selfcheck"
       ELSE /\ phase' = "trying" /\ UNCHANGED <<attached, attachedGenuine>>
  /\ UNCHANGED <<prior, urls, cache, k, contacted, failed>>

Try ==
  /\ phase = "trying" /\ k <= Len(urls)
  /\ contacted' = Append(contacted, k)
  /\ IF Accepts(urls[k])
       THEN /\ attached' = k /\ attachedGenuine' = Genuine(urls[k]) /\ phase' = "selfcheck" /\ UNCHANGED <<k, failed>>
       ELSE IF Variant = "FirstFailAborts"
         THEN /\ failed' = TRUE /\ phase' = "done" /\ UNCHANGED <<k, attached, attachedGenuine>>
         ELSE /\ k' = k + 1 /\ UNCHANGED <<attached, attachedGenuine, phase, failed>>
  /\ UNCHANGED <<prior, urls, cache>>

AllFailed ==
  /\ phase = "trying" /\ k > Len(urls)
  /\ IF Variant = "OmitOnFailure" THEN failed' = FALSE ELSE failed' = TRUE
  /\ phase' = "done"
  /\ UNCHANGED <<prior, urls, cache, k, contacted, attached, attachedGenuine>>

SelfCheck ==
  /\ phase = "selfcheck"
  /\ LET ok == IF attached = -1 THEN (cache = "hitGood" \/ Variant = "CacheSkipsSelfCheck")
               ELSE SelfCheckPasses(urls[attached])
     IN IF ok THEN failed' = FALSE /\ UNCHANGED <<attached, attachedGenuine>>
              ELSE failed' = TRUE /\ attached' = 0 /\ attachedGenuine' = FALSE
  /\ phase' = "done"
  /\ UNCHANGED <<prior, urls, cache, k, contacted>>

Next == CacheLookup \/ Try \/ AllFailed \/ SelfCheck
Spec == Init /\ [][Next]_vars

-----------------------------------------------------------------------------
Done == phase = "done"
FirstGenuine == IF \E i \in DOMAIN urls : Genuine(urls[i]) THEN CHOOSE i \in DOMAIN urls : Genuine(urls[i]) /\ \A j \in 1..(i-1) : ~Genuine(urls[j]) ELSE 0

\* a signature is emitted with a timestamp only if that timestamp is genuine
OnlyGenuine == (Done /\ ~failed /\ attached # 0) => attachedGenuine

\* configured timestamping is never silently skipped
NeverSilentlyOmitted == (Done /\ ~failed) => attached # 0

\* authorities are tried in order and the first genuine one wins
FirstGenuineWins == (Done /\ ~failed /\ attached > 0) => attached = FirstGenuine
TriedInOrder == \A i \in DOMAIN contacted : contacted[i] = i

\* if some authority is genuine (and the cache does not interfere) signing succeeds
GenuineSuffices == (Done /\ cache \in {"off", "miss", "hitGarbage"} /\ FirstGenuine # 0) => (~failed /\ attached = FirstGenuine)

=============================================================================
