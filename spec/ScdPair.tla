------------------------------- MODULE ScdPair -------------------------------
(* Concurrent signers on one scdaemon token. A signature needs two Assuan transactions - SETDATA <digest>, then PKSIGN,
   which signs whatever the card was last given. lib/assuan's connection lock covers ONE transaction; what makes the
   pair one step for other signers is the token lock that token/scdtoken/scdtoken.go scdKey.Sign holds across
   assuan.ScdKey.Sign. Without it signer A can receive a valid signature over signer B's digest.

   Each signer: Lock, SetData, PkSign, Unlock. The card holds `data`. *)
EXTENDS Integers, Sequences, FiniteSets, TLC

CONSTANTS Signers,   \* e.g. {"a", "b"}
          Rounds,    \* signatures per signer
          TokenLock  \* TRUE: scdKey.Sign's lock (the code); FALSE: deviation "NoSignLock"

VARIABLES pc,       \* [Signers -> "idle" | "locked" | "set" | "signed"]
          round,    \* [Signers -> 0..Rounds]
          holder,   \* "none" or the signer holding the token lock
          data,     \* the card's last SETDATA: <<signer, round>> or <<>>
          got,      \* [Signers -> sequence of what each returned signature was computed over]
          tr        \* transcript of commands as the daemon sees them
vars == <<pc, round, holder, data, got, tr>>

Init ==
  /\ pc = [s \in Signers |-> "idle"] /\ round = [s \in Signers |-> 0] /\ holder = "none"
  /\ data = <<>> /\ got = [s \in Signers |-> <<>>] /\ tr = <<>>

Lock(s) ==
  /\ pc[s] = "idle" /\ round[s] < Rounds
  /\ TokenLock => holder = "none"
  /\ holder' = (IF TokenLock THEN s ELSE holder)
  /\ pc' = [pc EXCEPT ![s] = "locked"] /\ round' = [round EXCEPT ![s] = @ + 1]
  /\ UNCHANGED <<data, got, tr>>

\* one Assuan transaction each (the connection mutex makes a transaction atomic)
SetData(s) ==
  /\ pc[s] = "locked"
  /\ data' = <<s, round[s]>> /\ tr' = Append(tr, [cmd |-> "SETDATA", d |-> <<s, round[s]>>])
  /\ pc' = [pc EXCEPT ![s] = "set"] /\ UNCHANGED <<round, holder, got>>

PkSign(s) ==
  /\ pc[s] = "set"
  /\ got' = [got EXCEPT ![s] = Append(@, data)] /\ tr' = Append(tr, [cmd |-> "PKSIGN", d |-> data])
  /\ pc' = [pc EXCEPT ![s] = "signed"] /\ UNCHANGED <<round, holder, data>>

Unlock(s) ==
  /\ pc[s] = "signed"
  /\ holder' = (IF TokenLock THEN "none" ELSE holder)
  /\ pc' = [pc EXCEPT ![s] = "idle"] /\ UNCHANGED <<round, data, got, tr>>

Next == \E s \in Signers : Lock(s) \/ SetData(s) \/ PkSign(s) \/ Unlock(s)
Spec == Init /\ [][Next]_vars /\ WF_vars(Next)

TypeOK == holder \in Signers \cup {"none"} /\ \A s \in Signers : round[s] \in 0..Rounds

\* every signature a signer receives is over its own digest of that round
OwnDigestSigned == \A s \in Signers : \A i \in 1..Len(got[s]) : got[s][i] = <<s, i>>

\* as the daemon sees it: commands alternate SETDATA, PKSIGN and each PKSIGN signs the SETDATA just before it
Alternates ==
  \A i \in 1..Len(tr) :
     /\ (i % 2 = 1) => tr[i].cmd = "SETDATA"
     /\ (i % 2 = 0) => (tr[i].cmd = "PKSIGN" /\ tr[i].d = tr[i-1].d)

MutualExclusion == TokenLock => Cardinality({s \in Signers : pc[s] # "idle"}) <= 1

AllDone == <>(\A s \in Signers : round[s] = Rounds /\ pc[s] = "idle")
=============================================================================
