--------------------------------- MODULE Cfb ---------------------------------
(***************************************************************************)
(* lib/comdoc writer as an abstract allocator over one sector table:       *)
(* AddStream (free sectors first-fit, then the table grows), DeleteStream  *)
(* (frees the chain), replace = delete + add; a stream below the cut-off   *)
(* lives in the mini stream (modelled as its own table).  The history of   *)
(* operations is what the harness replays on real files; the invariants    *)
(* are the sector-level ones of CfbInv restricted to this abstract state.  *)
(***************************************************************************)
EXTENDS Integers, Sequences, FiniteSets, TLC

CONSTANTS Names,        \* stream names that operations may target
          Sizes,        \* size classes an added stream may have
          MaxOps,
          TableCap,     \* sectors the abstract table may grow to
          Variant       \* "code" | "ReuseAllocated" | "NoTerminate" | "NoFree"

FREE == -1
EOC == -2

\* abstract size class -> number of regular sectors (0 = lives in the mini stream)
SectorsOf(sz) == CASE sz = "empty" -> 0 [] sz = "mini" -> 0 [] sz = "cutoff-1" -> 0 [] sz = "cutoff" -> 1
                   [] sz = "cutoff+1" -> 2 [] sz = "big" -> 3 [] OTHER -> 0

VARIABLES fat,       \* sequence over sectors: next sector, EOC or FREE
          streams,   \* name -> [start, n] for streams stored in regular sectors; start = EOC when n = 0
          present,   \* names currently in the directory
          ops        \* history

vars == <<fat, streams, present, ops>>

Init ==
  /\ fat = <<>> /\ streams = [n \in Names |-> [start |-> EOC, n |-> 0]] /\ present = {} /\ ops = <<>>

FreeSecs(f) == {k \in 1..Len(f) : f[k] = FREE}

\* first-fit: lowest free sectors first, then new sectors at the end
RECURSIVE Pick(_, _, _)
Pick(f, need, acc) ==
  IF need = 0 THEN acc
  ELSE LET fs == FreeSecs(f) \ {acc[i] : i \in DOMAIN acc}
       IN IF fs # {} THEN Pick(f, need - 1, Append(acc, CHOOSE k \in fs : \A j \in fs : k <= j))
          ELSE Pick(Append(f, FREE), need - 1, Append(acc, Len(f) + 1))

Grown(f, secs) == [k \in 1..(IF secs = <<>> THEN Len(f) ELSE LET m == CHOOSE x \in {secs[i] : i \in DOMAIN secs} : \A y \in {secs[i] : i \in DOMAIN secs} : x >= y
                                                          IN IF m > Len(f) THEN m ELSE Len(f)) |-> IF k <= Len(f) THEN f[k] ELSE FREE]

Link(f, secs) ==
  [k \in DOMAIN f |->
     IF \E i \in DOMAIN secs : secs[i] = k
       THEN LET i == CHOOSE i \in DOMAIN secs : secs[i] = k
            IN IF i = Len(secs) THEN (IF Variant = "NoTerminate" THEN FREE ELSE EOC) ELSE secs[i + 1]
       ELSE f[k]]

RECURSIVE ChainOf(_, _, _)
ChainOf(f, k, fuel) == IF k = EOC \/ fuel = 0 \/ k < 1 \/ k > Len(f) THEN {} ELSE {k} \cup ChainOf(f, f[k], fuel - 1)

FreeChain(f, start) ==
  IF Variant = "NoFree" THEN f
  ELSE LET c == ChainOf(f, start, Len(f) + 1) IN [k \in DOMAIN f |-> IF k \in c THEN FREE ELSE f[k]]

Delete(n) ==
  /\ Len(ops) < MaxOps /\ n \in present
  /\ fat' = FreeChain(fat, streams[n].start)
  /\ streams' = [streams EXCEPT ![n] = [start |-> EOC, n |-> 0]]
  /\ present' = present \ {n}
  /\ ops' = Append(ops, [op |-> "delete", name |-> n, size |-> ""])

Add(n, sz) ==      \* AddFile = DeleteFile + addStream + new directory entry
  /\ Len(ops) < MaxOps
  /\ LET f0 == IF n \in present THEN FreeChain(fat, streams[n].start) ELSE fat
         need == SectorsOf(sz)
         secs0 == Pick(f0, need, <<>>)
         secs == IF Variant = "ReuseAllocated" /\ need > 0 /\ Len(f0) > 0 THEN [secs0 EXCEPT ![1] = 1] ELSE secs0
         f1 == Grown(f0, secs)
     IN /\ Len(f1) <= TableCap
        /\ fat' = Link(f1, secs)
        /\ streams' = [streams EXCEPT ![n] = [start |-> IF need = 0 THEN EOC ELSE secs[1], n |-> need]]
  /\ present' = present \cup {n}
  /\ ops' = Append(ops, [op |-> "add", name |-> n, size |-> sz])

Next == (\E n \in Names : Delete(n)) \/ (\E n \in Names, sz \in Sizes : Add(n, sz))
Spec == Init /\ [][Next]_vars

-----------------------------------------------------------------------------
ChainSeqOK(n) ==
  LET c == ChainOf(fat, streams[n].start, Len(fat) + 1)
  IN streams[n].n = Cardinality(c) /\ \A k \in c : fat[k] # FREE

\* chains have the recorded length, never run into free sectors, and are pairwise disjoint
ChainsSound == \A n \in present : ChainSeqOK(n)
ChainsDisjoint ==
  \A a, b \in present : a # b => ChainOf(fat, streams[a].start, Len(fat) + 1) \cap ChainOf(fat, streams[b].start, Len(fat) + 1) = {}
\* every non-free sector belongs to some present stream
NoLeak == \A k \in 1..Len(fat) : fat[k] # FREE => \E n \in present : k \in ChainOf(fat, streams[n].start, Len(fat) + 1)
=============================================================================
