------------------------------ MODULE Transport ------------------------------
(* The remote client's request loop: cmdline/remotecmd/client.go CallRemote / doRequest / buildRequest, with
   lib/compresshttp CompressRequest. One action per step of the loop:

     Build        buildRequest: GetReader() rewinds the one source stream, the body is (re)built for this attempt and,
                  for a compressed request, a goroutine starts pumping the source through the compressor
     Respond(r)   cli.Do returns: a response or a connection error; request.Body.Close(); classification;
                  406 fallback / next server / give up
     StaleCheck,  the reader of an EARLIER attempt - net/http's write loop or the compressor goroutine - is still
     StaleRead    running when the server answered before the body was consumed; its next Read moves the shared
                  source offset under the current attempt unless the attempt's end fenced it
     StaleStop    the earlier connection is finally torn down
     Respond("srcfault")  the source stream itself fails part way through this attempt's body (disk / NFS read error):
                  the request is aborted - the server's read of the body ends in an error, never in a clean end of
                  stream - and the operation fails; a compressor between source and wire must pass the failure on

   The source stream is one *os.File shared by every attempt (signers/transform.go fileProducer.GetReader seeks it
   back to 0), so "what the server receives" depends on no other reader moving the offset.  *)
EXTENDS Integers, Sequences, FiniteSets, TLC

CONSTANTS MaxBases,     \* directory lists 1..MaxBases servers
          MaxRetries,   \* remote.retries in 0..MaxRetries
          MaxFail,      \* at most this many scripted non-ok responses per behaviour
          Guard,        \* which attempts have their source reader fenced when the attempt ends:
                        \*   "all" (every body is wrapped in a blocker), "compressed" (only CompressRequest's readBlocker), "none"
          AtomicFence,  \* TRUE: Close() excludes a Read in progress (mutex); FALSE: flag checked, then read (two steps)
          Variant       \* "code" or a named mutation of the loop

Offers == {"none", "gzip", "snappy+gzip", "unknown"}
Resp == {"ok", "s503", "early503", "s406", "s400", "refused", "srcfault"}
Temporary(r) == r \in {"s503", "early503", "refused"}
FullBody(r) == r \in {"ok", "s503", "s406", "s400"}     \* the server consumed the whole body before answering

\* compresshttp.selectEncoding over the advertised list
Select(o) == CASE o = "snappy+gzip" -> "snappy" [] o = "gzip" -> "gzip" [] OTHER -> "identity"

VARIABLES cfg,       \* [nb, retries, down, offered] chosen once
          i,         \* index into the (repeated) server list, 1-based
          accept,    \* the Accept-Encoding value sent ("" after a 406 fallback)
          phase,     \* "build" | "sending" | "done"
          log,       \* one record per attempt: [base, enc, accept, resp, body]
          stale,     \* attempts whose source reader may still run (answered early, not fenced)
          chk,       \* stale readers that passed the closed-flag check and are about to read
          dirty,     \* a foreign read moved the source offset since the current attempt rewound it
          outcome,   \* "none" | "ok" | "error"
          nfail
vars == <<cfg, i, accept, phase, log, stale, chk, dirty, outcome, nfail>>

Cfgs == [nb: 1..MaxBases, retries: 0..MaxRetries, down: SUBSET (1..MaxBases), offered: Offers]

\* doRequest: the list is repeated whole until it has at least `retries` entries
Reps(c) == IF c.nb >= c.retries THEN 1 ELSE (c.retries + c.nb - 1) \div c.nb
BaseList(c) == [k \in 1..(Reps(c) * c.nb) |-> ((k - 1) % c.nb) + 1]
Bases == BaseList(cfg)

Enc == IF accept = "" THEN "identity" ELSE Select(accept)
Fenced(enc) == Guard = "all" \/ (Guard = "compressed" /\ enc # "identity")
\* deviation "SwallowSourceError": the compressor finishes its stream cleanly when the source fails, so the server sees a
\* well-formed body that is only a prefix, and answers it
Swallowed(r) == r = "srcfault" /\ Variant = "SwallowSourceError" /\ Enc # "identity"

Init ==
  /\ cfg \in {c \in Cfgs : c.down \subseteq 1..c.nb}
  /\ i = 1 /\ accept = (IF cfg.offered = "none" THEN "" ELSE cfg.offered)
  /\ phase = "build" /\ log = <<>> /\ stale = {} /\ chk = {} /\ dirty = FALSE /\ outcome = "none" /\ nfail = 0

Build ==
  /\ phase = "build"
  /\ phase' = "sending" /\ dirty' = FALSE
  /\ UNCHANGED <<cfg, i, accept, log, stale, chk, outcome, nfail>>

Attempt == Len(log) + 1

Respond(r) ==
  /\ phase = "sending"
  /\ (Bases[i] \in cfg.down) <=> (r = "refused")
  /\ r \notin {"ok", "refused"} => nfail < MaxFail
  /\ nfail' = IF r \in {"ok", "refused"} THEN nfail ELSE nfail + 1
  /\ LET body == IF r = "refused" THEN "none" ELSE IF r = "early503" THEN "partial" ELSE IF r = "srcfault" THEN "prefix"
                 ELSE IF dirty THEN "corrupt" ELSE "intact"
         \* did the server's read of the body end cleanly (so that it would go on and sign what it got)?
         complete == FullBody(r) \/ Swallowed(r)
         \* compresshttp.Middleware picks the response encoding from the request's Accept-Encoding (net/http adds "gzip" when the
         \* client set none); error responses are never compressed
         respEnc == IF r # "ok" /\ ~Swallowed(r) THEN "identity"
                    ELSE IF Variant = "CompressUnasked" THEN "snappy"
                    ELSE IF accept = "" THEN "gzip" ELSE Select(accept)
         rec == [base |-> Bases[i], enc |-> Enc, accept |-> accept, resp |-> r, body |-> body, respEnc |-> respEnc, complete |-> complete]
     IN log' = Append(log, rec)
  \* request.Body.Close(): a reader that has not finished keeps running unless the close fences it
  /\ stale' = IF r = "early503" /\ ~Fenced(Enc) THEN stale \cup {Attempt} ELSE stale
  /\ CASE r = "ok" \/ Swallowed(r) -> outcome' = "ok" /\ phase' = "done" /\ UNCHANGED <<i, accept>>
       [] r = "s406" /\ accept # "" /\ Variant # "No406Fallback" ->
            /\ accept' = ""
            /\ i' = IF Variant = "FallbackKeepsIndex" THEN i ELSE 1
            /\ phase' = "build" /\ UNCHANGED outcome
       [] (Temporary(r) \/ (Variant = "RetryPermanent" /\ r = "s400")) /\ i + 1 <= Len(Bases) /\ ~(r = "s406" /\ accept # "" /\ Variant # "No406Fallback") ->
            /\ i' = i + 1 /\ phase' = "build" /\ UNCHANGED <<accept, outcome>>
       [] OTHER -> outcome' = "error" /\ phase' = "done" /\ UNCHANGED <<i, accept>>
  /\ UNCHANGED <<cfg, chk, dirty>>

\* a stale reader: check the closed flag, then read
StaleCheck(a) ==
  /\ a \in stale /\ a \notin chk
  /\ chk' = chk \cup {a}
  /\ UNCHANGED <<cfg, i, accept, phase, log, stale, dirty, outcome, nfail>>

StaleRead(a) ==
  /\ a \in chk
  /\ chk' = chk \ {a}
  /\ dirty' = (dirty \/ phase = "sending")      \* it moves the offset under whoever is reading now
  /\ UNCHANGED <<cfg, i, accept, phase, log, stale, outcome, nfail>>

StaleStop(a) ==
  /\ a \in stale /\ a \notin chk
  /\ stale' = stale \ {a}
  /\ UNCHANGED <<cfg, i, accept, phase, log, chk, dirty, outcome, nfail>>

\* With a non-atomic fence (flag checked, then read) even a fenced reader may have ONE read in flight when the
\* attempt ends: model it as the reader having already passed the check
LateRead ==
  /\ ~AtomicFence /\ Guard # "none"
  /\ phase = "build" /\ Len(log) > 0 /\ log[Len(log)].resp = "early503" /\ Fenced(log[Len(log)].enc)
  /\ Len(log) \notin chk /\ Len(log) \notin stale
  /\ chk' = chk \cup {Len(log)}
  /\ UNCHANGED <<cfg, i, accept, phase, log, stale, dirty, outcome, nfail>>

Next ==
  \/ Build
  \/ \E r \in Resp : Respond(r)
  \/ \E a \in 1..(2 * MaxBases * (MaxRetries + 1)) : StaleCheck(a) \/ StaleRead(a) \/ StaleStop(a)
  \/ LateRead

Spec == Init /\ [][Next]_vars /\ WF_vars(Build) /\ WF_vars(\E r \in Resp : Respond(r))

-----------------------------------------------------------------------------
TypeOK ==
  /\ i \in 1..Len(Bases) /\ accept \in Offers \cup {""} /\ phase \in {"build", "sending", "done"}
  /\ outcome \in {"none", "ok", "error"} /\ dirty \in BOOLEAN /\ chk \subseteq 1..Len(log)

\* what any server received in full is exactly the transform of the input
BodyIntact == \A k \in 1..Len(log) : log[k].complete => log[k].body = "intact"

\* a failure of the source is never reported as success
SourceFaultFails == \A k \in 1..Len(log) : log[k].resp = "srcfault" => (k = Len(log) /\ outcome # "ok")

\* each server is tried at most once per pass, and there are at most two passes (with / without compression)
AttemptsBounded == Len(log) <= 2 * Len(Bases)

\* success is reported only for an answered request, and then at once
SuccessHonest ==
  /\ outcome = "ok" => log[Len(log)].resp = "ok"
  /\ \A k \in 1..Len(log) : log[k].resp = "ok" => k = Len(log)

\* a 406 to a request that offered encodings restarts at the first server without any encoding, exactly once
Fallback406 ==
  \A k \in 1..Len(log) : (log[k].resp = "s406" /\ log[k].accept # "") =>
      /\ k < Len(log) => (log[k+1].base = Bases[1] /\ log[k+1].accept = "" /\ log[k+1].enc = "identity")
      /\ \A m \in (k+1)..Len(log) : log[m].accept = ""

\* failover walks the list in order: consecutive attempts without a fallback in between go to successive entries
FailoverInOrder ==
  \A k \in 1..(Len(log) - 1) :
     ~(log[k].resp = "s406" /\ log[k].accept # "") =>
        /\ Temporary(log[k].resp)
        /\ log[k+1].accept = log[k].accept
        /\ log[k+1].base = (log[k].base % cfg.nb) + 1

\* permanent errors end the operation; the operation gives up on a temporary error only when the list is exhausted
GiveUpRule ==
  outcome = "error" =>
     LET l == log[Len(log)] IN
       \/ ~Temporary(l.resp) /\ l.resp # "ok" /\ ~(l.resp = "s406" /\ l.accept # "")   \* a 406 to an encoded request is never final
       \/ Temporary(l.resp) /\ i = Len(Bases)

\* the response is encoded only in a way the request offered
Listed(a) == CASE a = "" -> {"gzip"} [] a = "gzip" -> {"gzip"} [] a = "snappy+gzip" -> {"gzip", "snappy"} [] OTHER -> {}
ResponseEncodingOffered == \A k \in 1..Len(log) : log[k].respEnc = "identity" \/ log[k].respEnc \in Listed(log[k].accept)

\* at least `retries` attempts are available before a transient failure is final
MinAttempts ==
  (outcome = "error" /\ Temporary(log[Len(log)].resp) /\ \A k \in 1..Len(log) : log[k].resp # "s406") => Len(log) >= cfg.retries

Terminates == <>(phase = "done")
=============================================================================
