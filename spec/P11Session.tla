------------------------------ MODULE P11Session ------------------------------
(* relic's PKCS#11 token (token/p11token), call by call against a Cryptoki library:

     Open     token.go Open: openLib (library loaded and initialised once per process), findSlot (C_GetSlotList,
              C_GetTokenInfo per slot, selection by configured label / serial), C_OpenSession, autoLogIn
              (C_GetSessionInfo, then token.Login with C_Login as the login function), Close on every failure
     GetKey   key.go getKey: findKey for the private, then the public object (C_FindObjectsInit / C_FindObjects /
              C_FindObjectsFinal), CKA_KEY_TYPE, then the public key attributes (rsa.go toRsaKey, ecdsa.go toEcdsaKey)
     Sign     key.go Sign under the token lock: rsa.go signRSA (CKM_RSA_PKCS over a DigestInfo, or CKM_RSA_PKCS_PSS)
              / ecdsa.go signECDSA (CKM_ECDSA, r||s repacked as DER): C_SignInit, C_Sign
     Close    C_CloseSession

   The library side is scripted by knobs chosen in Init. `tr` is the call transcript [fn, arg, rv] exactly as the
   harness-owned token model behind the wire module records it; `out` the outcome class of every API call. The
   behaviours are replayed on the real code and both are compared.

   P11Proto holds the Cryptoki discipline predicates over a transcript (one active operation per session and kind,
   C_Sign only after a successful C_SignInit, no call on a closed session, ...). *)
EXTENDS P11Proto, TLC

CONSTANTS MaxAnswers, MaxSigns,
          Variant        \* "code" or a named deviation

-----------------------------------------------------------------------------
\* what the tokens look like: a sequence of slots
T1 == [present |-> TRUE, label |-> "tok", serial |-> "0001"]      \* the token meant
T2 == [present |-> TRUE, label |-> "tok", serial |-> "0002"]      \* same label, other serial
T3 == [present |-> TRUE, label |-> "other", serial |-> "0003"]    \* somebody else's token
Absent == [present |-> FALSE, label |-> "", serial |-> ""]

SlotShapes == {"single", "absent-first", "other-first", "same-label", "only-other", "only-absent", "empty"}
SlotsOf(shape) ==       \* slot ids are positions 0, 1, ...
  CASE shape = "single"       -> <<T1>>
    [] shape = "absent-first" -> <<Absent, T1>>
    [] shape = "other-first"  -> <<T3, T1>>
    [] shape = "same-label"   -> <<T1, T2>>
    [] shape = "only-other"   -> <<T3>>
    [] shape = "only-absent"  -> <<Absent>>
    [] OTHER                  -> <<>>

Selectors == {"label", "serial", "both", "none"}
Selected(sel, t) ==
  /\ (sel \in {"label", "both"} => t.label = "tok")
  /\ (sel \in {"serial", "both"} => t.serial = "0001")

Pins      == {"none", "right", "wrong1"}
Answers   == {"right", "wrong1", "empty"}
Getters   == {"nil", "present"}
SessInfos == {"public", "user", "err"}
LoginRVs  == {"normal", "already", "device-error"}
Tries0    == {1, 3}

\* what the key's objects look like on the token
KeyShapes == {"rsa", "ec", "dsa", "none", "two-private", "no-public", "no-keytype", "rsa-no-modulus", "rsa-exponent-1", "ec-unknown-curve", "ec-bad-point"}
KeySels   == {"label", "id", "both", "bad-id"}
FindFaults == {"none", "init-err", "find-err", "final-err"}
SignMechs == {"pkcs1", "pss-hash", "pss-auto", "nohash"}
SignFaults == {"none", "init-err", "sign-err"}

SeqsUpTo(A, n) == UNION {[1..m -> A] : m \in 0..n}

VARIABLES k, pc, tr, out, asked, cur, tries, logged, sess, nsign,
          inv       \* objects the management calls left on the token: [pub, priv, keycert, chaincert]
vars == <<k, pc, tr, out, asked, cur, tries, logged, sess, nsign, inv>>

CandidatesOf(shape, sel) == {i \in 1..Len(SlotsOf(shape)) : SlotsOf(shape)[i].present /\ Selected(sel, SlotsOf(shape)[i])}
HasPresent(shape) == \E i \in 1..Len(SlotsOf(shape)) : SlotsOf(shape)[i].present

\* Knobs: built as a union of families around a plain session, so that dimensions that cannot matter stay pinned
Plain == [slotlist |-> "ok", shape |-> "single", sel |-> "label", tokeninfo |-> "ok", opensession |-> "ok", sessinfo |-> "public", pin |-> "right",
          getter |-> "nil", answers |-> <<>>, loginrv |-> "normal", tries0 |-> 3, keyshape |-> "rsa", keysel |-> "label", findfault |-> "none",
          ping |-> FALSE, signs |-> <<>>, mgmt |-> "none", certs |-> <<>>]

SlotFamily ==      \* how the token is found
  {[Plain EXCEPT !.slotlist = a, !.shape = sh, !.sel = sl, !.tokeninfo = ti, !.opensession = os] :
      a \in {"ok", "err"}, sh \in SlotShapes, sl \in Selectors, ti \in {"ok", "err"}, os \in {"ok", "err"}}
LoginFamily ==     \* how the session gets logged in
  {[Plain EXCEPT !.shape = sh, !.sessinfo = si, !.pin = p, !.getter = g, !.answers = an, !.loginrv = lr, !.tries0 = t0] :
      sh \in {"single", "other-first"}, si \in SessInfos, p \in Pins, g \in Getters, an \in SeqsUpTo(Answers, MaxAnswers), lr \in LoginRVs, t0 \in Tries0}
KeyFamily ==       \* what the key's objects look like
  {[Plain EXCEPT !.keyshape = ks, !.keysel = kl, !.findfault = ff, !.ping = pg] :
      ks \in KeyShapes, kl \in KeySels, ff \in FindFaults, pg \in BOOLEAN}
SignFamily ==      \* what is signed and how the token answers
  {[Plain EXCEPT !.keyshape = ks, !.ping = pg, !.signs = sg] :
      ks \in {"rsa", "ec"}, pg \in BOOLEAN, sg \in SeqsUpTo(SignMechs \X SignFaults, MaxSigns)}

MgmtOps == {"gen-rsa", "gen-ec", "gen-rsa-fallback", "gen-err", "gen-nolabel", "gen-bad-bits",
            "imp-rsa", "imp-ec", "imp-priv-wrapped", "imp-wrap-err", "imp-priv-refused", "imp-priv-err", "imp-pub-err", "imp-nolabel"}
CertOps == {"key", "key-err", "token", "token-nolabel"}
MgmtFamily ==      \* key generation / import and certificate import instead of GetKey + Sign
  {[Plain EXCEPT !.mgmt = m, !.certs = cs] : m \in MgmtOps, cs \in SeqsUpTo(CertOps, 3)}

Knobs ==
  {c \in SlotFamily \cup LoginFamily \cup KeyFamily \cup SignFamily \cup MgmtFamily :
     LET reaches == c.slotlist = "ok" /\ c.tokeninfo = "ok" /\ Cardinality(CandidatesOf(c.shape, c.sel)) = 1
     IN /\ c.getter = "nil" => c.answers = <<>>
        /\ c.pin # "none" => (c.answers = <<>> /\ c.getter = "nil")
        /\ c.slotlist = "err" => (c.tokeninfo = "ok" /\ c.sel = "label" /\ c.opensession = "ok")
        /\ c.tokeninfo = "err" => (HasPresent(c.shape) /\ c.sel = "label" /\ c.opensession = "ok")
        /\ ~reaches => c.opensession = "ok"
        /\ c.sessinfo # "public" => (c.pin = "right" /\ c.loginrv = "normal" /\ c.tries0 = 3)
        /\ c.loginrv # "normal" => (c.pin = "right" /\ c.tries0 = 3)
        /\ c.keyshape \notin {"rsa", "ec"} => (c.findfault = "none" /\ c.keysel = "label")
        /\ c.keysel # "label" => c.findfault = "none"
        /\ c.mgmt \notin {"gen-rsa", "gen-ec", "gen-rsa-fallback", "imp-rsa", "imp-ec", "imp-priv-wrapped"} => c.certs = <<>>}

Out(call, r) == [call |-> call, result |-> r]

Init ==
  /\ k \in Knobs
  /\ pc = "findslot" /\ tr = <<>> /\ out = <<>> /\ asked = 0 /\ cur = "none"
  /\ tries = k.tries0 /\ logged = (k.sessinfo = "user") /\ sess = "none" /\ nsign = 0
  /\ inv = [pub |-> 0, priv |-> 0, keycert |-> 0, chaincert |-> 0]

Slots == SlotsOf(k.shape)
SlotId(i) == i - 1
Str(n) == CASE n = 0 -> "0" [] n = 1 -> "1" [] n = 2 -> "2" [] OTHER -> "3"

\* Close as Open's failure paths run it: C_CloseSession on whatever the session handle is (0 before a session exists)
CloseEv == IF sess = "open" THEN Ev("CloseSession", "open", "OK") ELSE Ev("CloseSession", "invalid", "SESSION_HANDLE_INVALID")
FailOpen(t, r) == tr' = Append(t, CloseEv) /\ out' = Append(out, Out("open", r)) /\ pc' = "closed" /\ sess' = "none"

\* --- findSlot
TokenInfoEvents(n) ==    \* C_GetTokenInfo for slots 1..n of the list
  [i \in 1..n |-> Ev("GetTokenInfo", Str(SlotId(i)), IF Slots[i].present THEN "OK" ELSE "TOKEN_NOT_PRESENT")]
FirstPresent == IF \E i \in 1..Len(Slots) : Slots[i].present THEN CHOOSE i \in 1..Len(Slots) : Slots[i].present /\ \A j \in 1..(i-1) : ~Slots[j].present ELSE 0
Candidates == CandidatesOf(k.shape, k.sel)

FindSlot ==
  /\ pc = "findslot"
  /\ IF k.slotlist = "err"
     THEN \* the list cannot be read: an error (deviation "SwallowSlotListError": carry on with slot 0)
          LET t == Append(tr, Ev("GetSlotList", "", "DEVICE_ERROR")) IN
          IF Variant = "SwallowSlotListError"
          THEN tr' = t /\ cur' = "slot0" /\ pc' = "opensession" /\ UNCHANGED <<out, sess>>
          ELSE FailOpen(t, "slotlist-failed") /\ UNCHANGED cur
     ELSE LET t0 == Append(tr, Ev("GetSlotList", Str(Len(Slots)), "OK")) IN
          IF k.tokeninfo = "err" /\ FirstPresent > 0
          THEN \* the first present token cannot be queried: an error
               LET t == t0 \o TokenInfoEvents(FirstPresent - 1) \o <<Ev("GetTokenInfo", Str(SlotId(FirstPresent)), "DEVICE_ERROR")>>
               IN FailOpen(t, "tokeninfo-failed") /\ UNCHANGED cur
          ELSE LET t == t0 \o TokenInfoEvents(Len(Slots)) IN
               CASE Cardinality(Candidates) = 0 -> FailOpen(t, "no-token") /\ UNCHANGED cur
                 [] Cardinality(Candidates) > 1 -> FailOpen(t, "multiple-tokens") /\ UNCHANGED cur
                 [] OTHER -> tr' = t /\ cur' = Str(SlotId(CHOOSE i \in Candidates : TRUE)) /\ pc' = "opensession" /\ UNCHANGED <<out, sess>>
  /\ UNCHANGED <<k, asked, tries, logged, nsign, inv>>

OpenSession ==
  /\ pc = "opensession"
  /\ LET slot == IF cur = "slot0" THEN "0" ELSE cur IN
     IF k.opensession = "err"
     THEN FailOpen(Append(tr, Ev("OpenSession", slot, "TOKEN_NOT_RECOGNIZED")), "opensession-failed")
     ELSE tr' = Append(tr, Ev("OpenSession", slot, "OK")) /\ sess' = "open" /\ pc' = "sessioninfo" /\ UNCHANGED out
  /\ UNCHANGED <<k, asked, cur, tries, logged, nsign, inv>>

\* autoLogIn: already logged in (another session of this application, or a token without login) -> nothing to do
SessionInfo ==
  /\ pc = "sessioninfo"
  /\ CASE k.sessinfo = "err"  -> FailOpen(Append(tr, Ev("GetSessionInfo", "open", "DEVICE_ERROR")), "sessioninfo-failed")
       [] k.sessinfo = "user" -> tr' = Append(tr, Ev("GetSessionInfo", "open", "OK")) /\ out' = Append(out, Out("open", "ok")) /\ pc' = "ready" /\ UNCHANGED sess
       [] OTHER               -> tr' = Append(tr, Ev("GetSessionInfo", "open", "OK")) /\ pc' = "login" /\ UNCHANGED <<out, sess>>
  /\ UNCHANGED <<k, asked, cur, tries, logged, nsign, inv>>

\* token.Login without a keyring (SecretEntry covers the keyring)
Answer == IF asked < Len(k.answers) THEN k.answers[asked + 1] ELSE "empty"
Login ==
  /\ pc = "login"
  /\ CASE k.pin # "none" -> cur' = k.pin /\ pc' = "c_login" /\ UNCHANGED <<asked, tr, out, sess>>
       [] k.getter = "nil" -> FailOpen(tr, "no-provider") /\ UNCHANGED <<asked, cur>>
       [] Answer = "empty" -> asked' = asked + 1 /\ FailOpen(tr, "aborted") /\ UNCHANGED cur
       [] OTHER -> asked' = asked + 1 /\ cur' = Answer /\ pc' = "c_login" /\ UNCHANGED <<tr, out, sess>>
  /\ UNCHANGED <<k, tries, logged, nsign, inv>>

CLogin ==
  /\ pc = "c_login"
  /\ LET ev(rv) == Ev("Login", "user=1 pin=" \o cur, rv) IN
     CASE k.loginrv = "already" ->
            \* somebody logged in between the check and the call: the code treats it as a failure
            FailOpen(Append(tr, ev("USER_ALREADY_LOGGED_IN")), "login-failed") /\ UNCHANGED <<tries, logged>>
       [] k.loginrv = "device-error" -> FailOpen(Append(tr, ev("DEVICE_ERROR")), "login-failed") /\ UNCHANGED <<tries, logged>>
       [] tries = 0 -> FailOpen(Append(tr, ev("PIN_LOCKED")), "login-failed") /\ UNCHANGED <<tries, logged>>
       [] cur = "right" ->
            /\ tr' = Append(tr, ev("OK")) /\ logged' = TRUE /\ tries' = k.tries0
            /\ out' = Append(out, Out("open", "ok")) /\ pc' = "ready" /\ UNCHANGED sess
       [] OTHER ->
            /\ tries' = tries - 1 /\ UNCHANGED logged
            /\ IF k.pin # "none" THEN FailOpen(Append(tr, ev("PIN_INCORRECT")), "pin-incorrect")
               ELSE IF Variant = "RetrySamePin" THEN tr' = Append(tr, ev("PIN_INCORRECT")) /\ pc' = "c_login" /\ UNCHANGED <<out, sess>>
               ELSE tr' = Append(tr, ev("PIN_INCORRECT")) /\ pc' = "login" /\ UNCHANGED <<out, sess>>
  /\ UNCHANGED <<k, asked, cur, nsign, inv>>

\* --- Ping (optional), GetKey
Ping ==
  /\ pc = "ready" /\ k.ping /\ ~\E i \in 1..Len(out) : out[i].call = "ping"
  /\ tr' = Append(tr, Ev("GetSessionInfo", "open", "OK")) /\ out' = Append(out, Out("ping", "ok"))
  /\ UNCHANGED <<k, pc, asked, cur, tries, logged, sess, nsign, inv>>

SelArg == CASE k.keysel = "label" -> " label=k1" [] k.keysel = "id" -> " id=01" [] OTHER -> " label=k1 id=01"

\* objects of the wanted class that the search template matches
NPriv == CASE k.keyshape = "none" -> 0 [] k.keyshape = "two-private" -> 2 [] OTHER -> 1
NPub  == CASE k.keyshape \in {"none", "no-public"} -> 0 [] OTHER -> 1

\* findObject for one class: events and result ("ok" / error class)
FindEvents(class, n, fault) ==
  LET init == Ev("FindObjectsInit", "class=" \o class \o SelArg, IF fault = "init-err" THEN "DEVICE_ERROR" ELSE "OK") IN
  CASE fault = "init-err"  -> <<init>>
    [] fault = "find-err"  -> <<init, Ev("FindObjects", "0", "DEVICE_ERROR"), Ev("FindObjectsFinal", "", "OK")>>
    [] fault = "final-err" -> <<init, Ev("FindObjects", Str(n), "OK"), Ev("FindObjectsFinal", "", "DEVICE_ERROR")>>
    [] OTHER               -> <<init, Ev("FindObjects", Str(n), "OK"), Ev("FindObjectsFinal", "", "OK")>>

GetAttr(obj, a, rv) == Ev("GetAttributeValue", obj \o " " \o a, rv)

GetKey ==
  /\ pc = "ready" /\ (k.ping => \E i \in 1..Len(out) : out[i].call = "ping") /\ k.mgmt = "none"
  /\ LET done(t, r) == tr' = t /\ out' = Append(out, Out("getkey", r)) /\ pc' = (IF r = "ok" THEN "sign" ELSE "close")
         priv == FindEvents("priv", NPriv, k.findfault)
         pub == FindEvents("pub", NPub, "none")
         kt == tr \o priv \o pub \o <<GetAttr("priv:k1", "KEY_TYPE", IF k.keyshape = "no-keytype" THEN "ATTRIBUTE_TYPE_INVALID" ELSE "OK")>>
     IN CASE k.keysel = "bad-id" -> done(tr, "bad-id")
          [] k.findfault # "none" -> done(tr \o priv, "find-failed")
          [] NPriv = 0 -> done(tr \o priv, "not-found")
          [] NPriv > 1 -> done(tr \o priv, "multiple")
          [] NPub = 0 -> done(tr \o priv \o pub, "not-found")
          [] k.keyshape = "no-keytype" -> done(kt, "keytype-missing")
          [] k.keyshape = "dsa" -> done(kt, "unsupported-keytype")
          [] k.keyshape \in {"rsa", "rsa-exponent-1"} ->
               done(kt \o <<GetAttr("pub:k1", "MODULUS", "OK"), GetAttr("pub:k1", "PUBLIC_EXPONENT", "OK")>>, IF k.keyshape = "rsa" THEN "ok" ELSE "rsa-exponent")
          [] k.keyshape = "rsa-no-modulus" ->
               done(kt \o <<GetAttr("pub:k1", "MODULUS", "ATTRIBUTE_TYPE_INVALID"), GetAttr("pub:k1", "PUBLIC_EXPONENT", "OK")>>, "rsa-pub-missing")
          [] OTHER ->
               done(kt \o <<GetAttr("pub:k1", "EC_PARAMS", "OK"), GetAttr("pub:k1", "EC_POINT", "OK")>>,
                    CASE k.keyshape = "ec" -> "ok" [] k.keyshape = "ec-unknown-curve" -> "ec-curve" [] OTHER -> "ec-point")
  /\ UNCHANGED <<k, asked, cur, tries, logged, sess, nsign, inv>>

\* --- Sign
Dn(n) == CASE n = 1 -> "d1" [] n = 2 -> "d2" [] OTHER -> "d3"
MechArg(m) ==
  IF k.keyshape = "ec" THEN "ECDSA priv:k1"
  ELSE CASE m = "pkcs1" -> "RSA_PKCS priv:k1" [] m = "pss-hash" -> "RSA_PKCS_PSS(SHA-256,mgf1-SHA-256,32) priv:k1" [] OTHER -> "RSA_PKCS_PSS(SHA-256,mgf1-SHA-256,222) priv:k1"
\* what C_Sign is given: the DigestInfo for PKCS#1 v1.5, the bare digest otherwise
DataArg(m, n) == IF k.keyshape = "rsa" /\ m = "pkcs1" THEN "digestinfo:" \o Dn(n) ELSE Dn(n)

Sign ==
  /\ pc = "sign"
  /\ IF nsign >= Len(k.signs) THEN pc' = "close" /\ UNCHANGED <<tr, out, nsign>>
     ELSE LET m == k.signs[nsign + 1][1]
              f == k.signs[nsign + 1][2]
              n == nsign + 1
          IN /\ nsign' = n /\ pc' = "sign"
             /\ CASE m = "nohash" /\ k.keyshape = "rsa" ->
                       \* options without a hash: refused before the token is touched (ECDSA signs any digest)
                       tr' = tr /\ out' = Append(out, Out("sign", "opts-required"))
                  [] f = "init-err" ->
                       tr' = Append(tr, Ev("SignInit", MechArg(m), "KEY_HANDLE_INVALID")) /\ out' = Append(out, Out("sign", "signinit-failed"))
                  [] f = "sign-err" ->
                       tr' = tr \o <<Ev("SignInit", MechArg(m), "OK"), Ev("Sign", DataArg(m, n), "DEVICE_ERROR")>> /\ out' = Append(out, Out("sign", "sign-failed"))
                  [] OTHER ->
                       tr' = tr \o <<Ev("SignInit", MechArg(m), "OK"), Ev("Sign", DataArg(m, n), "OK")>> /\ out' = Append(out, Out("sign", "ok"))
  /\ UNCHANGED <<k, asked, cur, tries, logged, sess, inv>>

Close ==
  /\ pc = "close"
  /\ tr' = Append(tr, Ev("CloseSession", "open", "OK")) /\ out' = Append(out, Out("close", "ok")) /\ sess' = "none" /\ pc' = "closed"
  /\ UNCHANGED <<k, asked, cur, tries, logged, nsign, inv>>

\* --- key management: import.go Generate / Import, certs.go ImportCertificate
\* getKey of the freshly made key: searched by its label and the new random id
NewKeyLookup(label, ec) ==
  <<Ev("FindObjectsInit", "class=priv label=" \o label \o " id=random", "OK"), Ev("FindObjects", "1", "OK"), Ev("FindObjectsFinal", "", "OK"),
    Ev("FindObjectsInit", "class=pub label=" \o label \o " id=random", "OK"), Ev("FindObjects", "1", "OK"), Ev("FindObjectsFinal", "", "OK"),
    GetAttr("priv:" \o label, "KEY_TYPE", "OK")>>
  \o (IF ec THEN <<GetAttr("pub:" \o label, "EC_PARAMS", "OK"), GetAttr("pub:" \o label, "EC_POINT", "OK")>>
            ELSE <<GetAttr("pub:" \o label, "MODULUS", "OK"), GetAttr("pub:" \o label, "PUBLIC_EXPONENT", "OK")>>)

KeyLabel == IF k.mgmt \in {"gen-rsa", "gen-ec", "gen-rsa-fallback"} THEN "gen" ELSE "imp"

Mgmt ==
  /\ pc = "ready" /\ k.mgmt # "none"
  /\ LET m == k.mgmt
         ok(t, pubs, privs) == tr' = t /\ out' = Append(out, Out("mgmt", "ok")) /\ inv' = [inv EXCEPT !.pub = pubs, !.priv = privs] /\ pc' = "certs"
         bad(t, r) == tr' = t /\ out' = Append(out, Out("mgmt", r)) /\ UNCHANGED inv /\ pc' = "close"
     IN CASE m \in {"gen-nolabel", "imp-nolabel"} -> bad(tr, "label-required")                    \* refused before the token is touched
          [] m = "gen-bad-bits" -> bad(tr, "bad-bits")
          [] m = "gen-rsa" -> ok(Append(tr, Ev("GenerateKeyPair", "mech=0xa", "OK")) \o NewKeyLookup("gen", FALSE), 1, 1)
          [] m = "gen-ec" -> ok(Append(tr, Ev("GenerateKeyPair", "mech=0x1040", "OK")) \o NewKeyLookup("gen", TRUE), 1, 1)
          [] m = "gen-rsa-fallback" ->
               \* a token without X9.31 key generation: the PKCS#1 generator is tried next
               ok(tr \o <<Ev("GenerateKeyPair", "mech=0xa", "MECHANISM_INVALID"), Ev("GenerateKeyPair", "mech=0x0", "OK")>> \o NewKeyLookup("gen", FALSE), 1, 1)
          [] m = "gen-err" -> bad(Append(tr, Ev("GenerateKeyPair", "mech=0xa", "DEVICE_ERROR")), "generate-failed")
          [] m \in {"imp-rsa", "imp-ec"} ->
               ok(tr \o <<Ev("CreateObject", "class=pub label=imp id=random", "OK"), Ev("CreateObject", "class=priv label=imp id=random", "OK")>>
                     \o NewKeyLookup("imp", m = "imp-ec"), 1, 1)
          [] m = "imp-pub-err" -> bad(Append(tr, Ev("CreateObject", "class=pub label=imp id=random", "DEVICE_ERROR")), "import-failed")
          [] OTHER ->
               \* the private half cannot be created directly. CKR_TEMPLATE_INCONSISTENT sends Import down the wrapping path
               \* (importPkcs8: a temporary 3DES key, the PKCS#8 blob encrypted under it, C_UnwrapKey, the temporary key
               \* destroyed); any other error, or a failure on that path, removes the public half made a moment ago
               \* (deviation "LeaveOrphan": it is left behind; "WrapResultLost": a successful unwrap is still reported as the
               \* refusal that led to it, and the public half removed)
               LET pubOK == Ev("CreateObject", "class=pub label=imp id=random", "OK")
                   priv(rv) == Ev("CreateObject", "class=priv label=imp id=random", rv)
                   destroy == IF Variant = "LeaveOrphan" THEN <<>> ELSE <<Ev("DestroyObject", "", "OK")>>
                   wrapHead == <<Ev("GenerateKey", "mech=0x131", "OK"), Ev("EncryptInit", "mech=0x136", "OK"), Ev("Encrypt", "", "OK")>>
                   unwrap(rv) == Ev("UnwrapKey", "mech=0x136 class=priv label=imp id=random", rv)
               IN CASE m = "imp-priv-err" -> bad(tr \o <<pubOK, priv("DEVICE_ERROR")>> \o destroy, "import-failed")
                    [] m = "imp-priv-refused" ->     \* a token that cannot make the temporary key either
                         bad(tr \o <<pubOK, priv("TEMPLATE_INCONSISTENT"), Ev("GenerateKey", "mech=0x131", "FUNCTION_NOT_SUPPORTED")>> \o destroy, "import-failed")
                    [] m = "imp-wrap-err" ->
                         bad(tr \o <<pubOK, priv("TEMPLATE_INCONSISTENT")>> \o wrapHead \o <<unwrap("DEVICE_ERROR"), Ev("DestroyObject", "", "OK")>> \o destroy, "import-failed")
                    [] OTHER ->                      \* imp-priv-wrapped
                         IF Variant = "WrapResultLost"
                         THEN /\ tr' = tr \o <<pubOK, priv("TEMPLATE_INCONSISTENT")>> \o wrapHead \o <<unwrap("OK"), Ev("DestroyObject", "", "OK"), Ev("DestroyObject", "", "OK")>>
                              /\ out' = Append(out, Out("mgmt", "import-failed")) /\ inv' = [inv EXCEPT !.priv = 1] /\ pc' = "close"
                         ELSE ok(tr \o <<pubOK, priv("TEMPLATE_INCONSISTENT")>> \o wrapHead \o <<unwrap("OK"), Ev("DestroyObject", "", "OK")>> \o NewKeyLookup("imp", FALSE), 1, 1)
  /\ UNCHANGED <<k, asked, cur, tries, logged, sess, nsign>>

\* ImportCertificate on the key (certs.go Key.ImportCertificate) or on the token with a label base
CertLookup(n) == <<Ev("FindObjectsInit", "class=cert id=random", "OK"), Ev("FindObjects", Str(n), "OK"), Ev("FindObjectsFinal", "", "OK")>>
ChainLookup(n) == <<Ev("FindObjectsInit", "class=cert label=base_chain_FP", "OK"), Ev("FindObjects", Str(n), "OK"), Ev("FindObjectsFinal", "", "OK")>>
NCertsDone == Cardinality({i \in 1..Len(out) : out[i].call = "cert"})

Certs ==
  /\ pc = "certs"
  /\ IF NCertsDone >= Len(k.certs) THEN pc' = "close" /\ UNCHANGED <<tr, out, inv>>
     ELSE LET c == k.certs[NCertsDone + 1]
              L == KeyLabel
              id == GetAttr("priv:" \o L, "ID", "OK")
          IN /\ pc' = "certs"
             /\ CASE c \in {"key", "key-err"} /\ inv.keycert > 0 ->
                       \* the key already has its certificate: refused, nothing written
                       tr' = tr \o <<id>> \o CertLookup(1) /\ out' = Append(out, Out("cert", "exists")) /\ UNCHANGED inv
                  [] c = "key" ->
                       tr' = tr \o <<id>> \o CertLookup(0) \o <<GetAttr("priv:" \o L, "LABEL", "OK"), Ev("CreateObject", "class=cert label=" \o L \o " id=random", "OK")>>
                       /\ out' = Append(out, Out("cert", "ok")) /\ inv' = [inv EXCEPT !.keycert = 1]
                  [] c = "key-err" ->
                       tr' = tr \o <<id>> \o CertLookup(0) \o <<GetAttr("priv:" \o L, "LABEL", "OK"), Ev("CreateObject", "class=cert label=" \o L \o " id=random", "DEVICE_ERROR")>>
                       /\ out' = Append(out, Out("cert", "create-failed")) /\ UNCHANGED inv
                  [] c = "token-nolabel" -> tr' = tr /\ out' = Append(out, Out("cert", "label-required")) /\ UNCHANGED inv
                  [] inv.chaincert > 0 -> tr' = tr \o ChainLookup(1) /\ out' = Append(out, Out("cert", "exists")) /\ UNCHANGED inv
                  [] OTHER ->
                       tr' = tr \o ChainLookup(0) \o <<Ev("CreateObject", "class=cert label=base_chain_FP id=random", "OK")>>
                       /\ out' = Append(out, Out("cert", "ok")) /\ inv' = [inv EXCEPT !.chaincert = 1]
  /\ UNCHANGED <<k, asked, cur, tries, logged, sess, nsign>>

Next == FindSlot \/ OpenSession \/ SessionInfo \/ Login \/ CLogin \/ Ping \/ GetKey \/ Sign \/ Mgmt \/ Certs \/ Close
Spec == Init /\ [][Next]_vars /\ WF_vars(Next)

-----------------------------------------------------------------------------
TypeOK == pc \in {"findslot", "opensession", "sessioninfo", "login", "c_login", "ready", "sign", "certs", "close", "closed"} /\ tries \in 0..3 /\ sess \in {"none", "open"}

OneOperationAtATime == OneOperationAtATimeOn(tr)
SignOnlyAfterInit == SignOnlyAfterInitOn(tr)
FindBracketed == FindBracketedOn(tr)
NoUseAfterClose == NoUseAfterCloseOn(tr)
SessionsClosed == pc = "closed" => SessionsClosedOn(tr)

\* the PIN goes only to a token the configuration selects: C_Login follows a C_OpenSession on a selected slot
PinOnlyToSelectedToken ==
  \A i \in 1..Len(tr) : tr[i].fn = "Login" =>
     \E j \in 1..(i-1) : tr[j].fn = "OpenSession" /\ tr[j].rv = "OK"
                         /\ \E s \in Candidates : tr[j].arg = Str(SlotId(s))

\* submissions are backed: the configured PIN once, or one per answered prompt; never to a token already logged in
LoginSubmissionsBacked ==
  LET n == Cardinality({i \in 1..Len(tr) : tr[i].fn = "Login"}) IN
    /\ n <= (IF k.pin # "none" THEN 1 ELSE asked)
    /\ (k.sessinfo = "user" => n = 0)

\* a locked PIN ends it
LockedNotHammered == \A i \in 1..Len(tr) : (tr[i].fn = "Login" /\ tr[i].rv = "PIN_LOCKED") => \A j \in (i+1)..Len(tr) : tr[j].fn # "Login"

\* nothing but Open's own calls before Open succeeded; GetKey / Sign only on a session that opened
OpenFirst ==
  /\ (Len(out) > 0 => out[1].call = "open")
  /\ \A i \in 2..Len(out) : out[1].result = "ok" /\ out[i].call # "open"

\* a key import that fails leaves no half of the key behind
NoOrphanKey ==
  /\ inv.pub = inv.priv
  /\ \A i \in 1..Len(tr) : (tr[i].fn = "CreateObject" /\ tr[i].arg = "class=priv label=imp id=random" /\ tr[i].rv # "OK") =>
        (pc \in {"close", "closed"} => (\E j \in (i+1)..Len(tr) : tr[j].fn = "DestroyObject" /\ tr[j].rv = "OK") \/ inv.priv = 1)

\* a certificate is never written twice for the same key / chain label
CertOnce == inv.keycert <= 1 /\ inv.chaincert <= 1
            /\ Cardinality({i \in 1..Len(tr) : tr[i].fn = "CreateObject" /\ tr[i].rv = "OK" /\ tr[i].arg = "class=cert label=base_chain_FP id=random"}) <= 1

Terminates == <>(pc = "closed")
=============================================================================
