--------------------------------- MODULE Cms ---------------------------------
(* What happens to the parts of a CMS SignedData when relic parses it and emits it again.

   lib/pkcs7 decodes with encoding/asn1 into structs that capture some parts RAW and rebuild the rest from fields:
     ContentInfo.Raw, SignerInfo.RawContent, RawCertificates, Attribute.Values (RawValue), AlgorithmIdentifier parameters
     (RawValue), CertificateList.TBSCertList.Raw            -> emitted byte for byte
     lengths, versions, OIDs, the SET OF digest algorithms, the order of SET members tagged `set`
                                                            -> re-encoded in DER (SET OF members sorted)
   The operations relic performs on a parsed value:
     RoundTrip       Unmarshal; Marshal                               (timestamp cache; certloader)
     Detach          Unmarshal; Detach(); Marshal: the content is handed back, the value keeps its content TYPE
     Embed           a parsed token is marshalled into an unauthenticated attribute of a signature relic has just built
                     (pkcs9.TimestampAndMarshal / AddStampToSignedData / AddStampToSignedAuthenticode)
     EmbedDetach     Embed, then Detach() the outer content, then Marshal  (jar, code-signature blob, xar)
     Resign          take the ContentInfo of a parsed catalog and sign it again with a new key (signers/cat)

   A shape says how the THIRD-PARTY value was encoded. Each part of it ends up "same" (byte-identical), "der" (re-encoded,
   equal iff the original was canonical DER), "gone" or "new". The property: every part covered by a third-party
   signature is "same" after every operation (or legitimately absent), and a freshly built signer info carries exactly
   one content-type and one message-digest attribute. *)
EXTENDS Integers, Sequences, FiniteSets, TLC

CONSTANTS Variant,
          ALens,     \* classes of the length of the signed-attribute set's content: "natural" (what the other dimensions give, below 127)
                     \* or "nK": padded by one more attribute to exactly K bytes (K around the DER length-form boundaries 128 and 256)
          Slim       \* TRUE: vary only the dimensions that shape the signed attributes (used with the nK classes)

FullShapes == [attrs: {"sorted", "unsorted"}, ncerts: 0..2, extraCert: BOOLEAN, crl: BOOLEAN, key: {"rsa", "ecdsa", "pss"},
           nullParam: BOOLEAN, timeForm: {"utc", "gen", "none"}, multiAttr: BOOLEAN, nested: BOOLEAN,
           algs: {"one", "two-sorted", "two-unsorted"}, ber: {"der", "longlen", "indef"},
           payload: {"text", "octetlike"},   \* "octetlike": the content octets themselves happen to parse as one DER OCTET STRING (04 len ...);
                                             \* what is digested must still be exactly the octets that are emitted
           alen: ALens]
SlimShapes == [attrs: {"sorted", "unsorted"}, ncerts: {1}, extraCert: {FALSE}, crl: {FALSE}, key: {"rsa", "ecdsa", "pss"},
           nullParam: {TRUE}, timeForm: {"utc", "gen", "none"}, multiAttr: {FALSE}, nested: {FALSE},   \* (with the multi-valued attribute the set is already past 128 bytes)
           algs: {"one"}, ber: {"der"}, payload: {"text"}, alen: ALens]
Shapes == IF Slim THEN SlimShapes ELSE FullShapes
Ops == {"RoundTrip", "Detach", "Embed", "EmbedDetach", "Resign"}

\* the parts of a SignedData value
Signed == {"econtent", "ctype", "sattrs", "sig", "sid", "certs", "crlTbs", "nestedToken"}   \* covered by some third-party signature or referenced by one
Unsigned == {"lengths", "digestAlgSet", "version"}
Parts == Signed \cup Unsigned

VARIABLES shape, op, phase, part, outcome, newAttrs
vars == <<shape, op, phase, part, outcome, newAttrs>>

\* encoding/asn1 parses DER only
Parsable(s) == s.ber = "der"
\* relic's verifier must accept the token before it is embedded (ParseResponse sanity check, TimestampAndMarshal self
\* check): the token has to carry the TSA's certificate (relic sets certReq). RSA-PSS tokens are accepted.
SelfCheckOk(s) == s.ncerts >= 1
\* what relic digests when it verifies (or builds) a signer info: the attributes as emitted, re-tagged SET OF, with the
\* DER length that content has. Named deviation: a hand-written header that uses the short form for 128 bytes (80 is
\* not a length) - builder and verifier agree with each other and with nobody else
DigestForm(s) == IF Variant = "ShortFormAt128" /\ s.alen = "n128" THEN "other" ELSE "as-emitted"
Accepts(s) == SelfCheckOk(s) /\ DigestForm(s) = "as-emitted"
Has(s, p) == CASE p = "certs" -> s.ncerts > 0 \/ s.extraCert
               [] p = "crlTbs" -> s.crl
               [] p = "nestedToken" -> s.nested
               [] OTHER -> TRUE

Init ==
  /\ shape \in Shapes /\ op \in Ops
  /\ phase = "parse" /\ part = [p \in Parts |-> "orig"] /\ outcome = "none" /\ newAttrs = <<>>

\* Unmarshal: refuse what is not DER
Parse ==
  /\ phase = "parse"
  /\ IF Parsable(shape) THEN phase' = "operate" /\ UNCHANGED outcome
                        ELSE phase' = "done" /\ outcome' = "refused"
  /\ UNCHANGED <<shape, op, part, newAttrs>>

\* how Marshal treats each part of a PARSED value
Emit(p) ==
  CASE p \in {"econtent", "sid", "sig"} -> "same"                    \* ContentInfo.Raw / SignerInfo.RawContent
    [] p = "ctype" -> IF Variant = "DetachAsData" /\ op = "Detach" THEN "der" ELSE "same"
    [] p = "sattrs" -> IF Variant = "SortSignedAttrs" /\ shape.attrs = "unsorted" THEN "der"
                       ELSE IF Variant = "NoSignerRaw" /\ shape.multiAttr THEN "der" ELSE "same"
    [] p = "certs" -> IF Variant = "DropUnparsableCert" /\ shape.extraCert THEN "gone" ELSE "same"
    [] p = "crlTbs" -> "same"                                         \* TBSCertList.Raw
    [] p = "nestedToken" -> "same"                                    \* attribute values are RawValues
    [] OTHER -> "der"

Operate ==
  /\ phase = "operate"
  /\ CASE op = "RoundTrip" ->
            /\ part' = [p \in Parts |-> IF Has(shape, p) THEN Emit(p) ELSE "absent"]
            /\ outcome' = "emitted" /\ UNCHANGED newAttrs
       [] op = "Detach" ->
            /\ part' = [p \in Parts |-> IF p = "econtent" THEN "gone" ELSE IF Has(shape, p) THEN Emit(p) ELSE "absent"]
            /\ outcome' = "detached" /\ UNCHANGED newAttrs
       [] op \in {"Embed", "EmbedDetach"} ->
            IF ~Accepts(shape)
            THEN outcome' = "refused" /\ UNCHANGED <<part, newAttrs>>
            ELSE /\ part' = [p \in Parts |-> IF Has(shape, p) THEN Emit(p) ELSE "absent"]   \* the token inside the attribute
                 /\ newAttrs' = IF Variant = "DoubleDigestAttr" THEN <<"contentType", "signingTime", "messageDigest", "messageDigest">>
                                ELSE <<"contentType", "signingTime", "messageDigest">>      \* the outer signer info relic built
                 /\ outcome' = IF op = "Embed" THEN "embedded" ELSE "embedded-detached"
       [] op = "Resign" ->
            \* only the encapsulated content of the old value survives; everything else is new
            /\ part' = [p \in Parts |-> IF p = "econtent" THEN (IF Variant = "ReencodeContent" THEN "der" ELSE "same")
                                        ELSE IF p = "ctype" THEN "same" ELSE "new"]
            /\ newAttrs' = <<>>      \* observed: the catalog signer builds a signer info WITHOUT authenticated attributes
            /\ outcome' = "resigned"
  /\ phase' = "done"
  /\ UNCHANGED <<shape, op>>

Next == Parse \/ Operate
Spec == Init /\ [][Next]_vars /\ WF_vars(Next)

-----------------------------------------------------------------------------
TypeOK == phase \in {"parse", "operate", "done"} /\ outcome \in {"none", "refused", "emitted", "detached", "embedded", "embedded-detached", "resigned"}

\* every signed part of the third-party value is byte-identical afterwards (or was never there / is legitimately replaced)
SignedPartsSame ==
  (phase = "done" /\ outcome \notin {"refused", "none"}) =>
     \A p \in Signed : part[p] \in {"same", "absent"} \/ (op = "Resign" /\ p # "econtent" /\ part[p] = "new")
                         \/ (op = "Detach" /\ p = "econtent" /\ part[p] = "gone")

\* a signer info relic builds has each mandatory attribute exactly once
Count(seq, x) == Cardinality({i \in DOMAIN seq : seq[i] = x})
MandatoryAttrsOnce ==
  (phase = "done" /\ newAttrs # <<>>) => Count(newAttrs, "contentType") = 1 /\ Count(newAttrs, "messageDigest") = 1

\* refusing is allowed only for encodings the decoder cannot read or a token relic cannot verify
RefuseOnlyWhenJustified ==
  outcome = "refused" => ~Parsable(shape) \/ (op \in {"Embed", "EmbedDetach"} /\ ~SelfCheckOk(shape))

\* signed attributes are digested in exactly the encoding that is emitted
DigestedAsEmitted == DigestForm(shape) = "as-emitted"

Terminates == <>(phase = "done")
=============================================================================
