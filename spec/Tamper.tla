------------------------------- MODULE Tamper -------------------------------
(***************************************************************************)
(* Verification soundness as a one-step decision model: a signed artifact  *)
(* of some type has named byte regions; Protected(t) are the regions the   *)
(* format's signature is defined to cover.  One Mutate step alters one     *)
(* region; the verifier must then reject (error or "unsigned").  Regions   *)
(* outside Protected(t) carry NO expectation.  The model is an oracle      *)
(* table; the byte sets of each region are computed by independent parsers *)
(* in the harness.                                                         *)
(***************************************************************************)
EXTENDS Integers, FiniteSets, TLC

CONSTANTS Types, Kinds,
          Variant    \* "code" | "PayloadUnchecked" | "SigValueUnchecked" | "AppendIgnored"

\* regions every type is split into by the harness's independent parsers
Regions == {"payload", "sigvalue", "sigcontainer", "append", "metadata"}

\* what each format's signature covers, stated positively and conservatively
Protected(t) ==
  CASE t \in {"pgp-detached"} -> {"payload", "sigvalue"}
    \* appended bytes: only where the platform's loader would still consume them and the format forbids them (PE overlay
    \* after the certificate table, cabinet trailer). A jar/zip or a script with trailing bytes carries no expectation.
    [] t \in {"pe-dll", "pe-exe", "cab"} -> {"payload", "sigvalue", "sigcontainer", "append"}
    \* an MSI signed with the extended signature (relic's default) also binds the directory metadata of every stream and
    \* storage: state bits, creation and modification time, class id
    [] t = "msi" -> {"payload", "sigvalue", "sigcontainer", "metadata"}
    \* a signed disk image binds the fields of its UDIF trailer (fork offsets and lengths, checksums, sector count ...)
    \* through the code directory's special slot for representation-specific data
    [] t = "dmg" -> {"payload", "sigvalue", "sigcontainer", "metadata"}
    [] OTHER -> {"payload", "sigvalue", "sigcontainer"}

VARIABLES typ, mutated, kind, verdict   \* verdict: "none" | "accept" | "reject"
vars == <<typ, mutated, kind, verdict>>

Init == typ \in Types /\ mutated = "none" /\ kind = "none" /\ verdict = "none"

Mutate(r, k) ==
  /\ mutated = "none" /\ verdict = "none"
  /\ mutated' = r /\ kind' = k /\ UNCHANGED <<typ, verdict>>

Checked(r) ==
  /\ ~(Variant = "PayloadUnchecked" /\ r = "payload")
  /\ ~(Variant = "SigValueUnchecked" /\ r = "sigvalue")
  /\ ~(Variant = "AppendIgnored" /\ r = "append")
  /\ ~(Variant = "MetadataUnchecked" /\ r = "metadata")

Verify ==
  /\ verdict = "none"
  /\ verdict' = IF mutated # "none" /\ mutated \in Protected(typ) /\ Checked(mutated) THEN "reject"
                ELSE IF mutated = "none" THEN "accept"
                ELSE IF mutated \in Protected(typ) THEN "accept"   \* an unchecked protected region: the bug the property forbids
                ELSE "accept"
  /\ UNCHANGED <<typ, mutated, kind>>

Next == (\E r \in Regions, k \in Kinds : Mutate(r, k)) \/ Verify
Spec == Init /\ [][Next]_vars

\* the verifier never reports success for an artifact altered inside a protected region
Sound == (verdict = "accept") => (mutated = "none" \/ mutated \notin Protected(typ))
\* and an untouched artifact verifies
Complete == (verdict # "none" /\ mutated = "none") => verdict = "accept"

MustReject == mutated # "none" /\ mutated \in Protected(typ)
=============================================================================
