------------------------------ MODULE BinPatch ------------------------------
(***************************************************************************)
(* lib/binpatch: PatchSet.Add / Dump / Load / Apply.                       *)
(*                                                                         *)
(* One action per public call of the implementation.  The patch list `ps'  *)
(* is built exactly by the coalescing / splitting rule of PatchSet.Add;    *)
(* `RefSplice' is the declarative meaning of the logical edits and shares  *)
(* nothing with it.  U32 is the model's stand-in for 2^32-1 (the code's    *)
(* uint32Max) so that TLC exercises splitting and refused coalescing.      *)
(*                                                                         *)
(* Variant = "code" is the implementation as read; every other value is a  *)
(* named, deliberately wrong variant used as a negative control.           *)
(***************************************************************************)
EXTENDS Integers, Sequences, FiniteSets, TLC

CONSTANTS MaxLen,    \* longest original file (in bytes = distinct symbols)
          MaxAdds,   \* most Add calls
          MaxBlob,   \* longest replacement blob per Add
          U32,       \* stand-in for uint32Max
          Variant    \* "code" | "NoAdjacency" | "NoSort" | "InPlaceNonFinal" | "NoTruncate" | "NoSkip" | "LoadShortBlob" | "OldEndLE"

VARIABLES orig,      \* the file before patching: <<1, 2, .., n>>
          edits,     \* logical edits in call order: [off, old, blob]
          ps,        \* patch list as PatchSet.Add builds it
          psHist,    \* ps after each Add (a function of edits; for replay comparison)
          phase,     \* "add" -> "dumped" -> "loaded" -> "applied"
          wire,      \* serialised form (cells), after Dump
          loaded,    \* result of Load(wire)
          outRW,     \* result of the write-then-rename strategy  [ok, data]
          outIP,     \* result of the in-place strategy            [ok, data]
          ipEligible \* does Apply choose in-place when the paths allow it

vars == <<orig, edits, ps, psHist, phase, wire, loaded, outRW, outIP, ipEligible>>

Min(a, b) == IF a < b THEN a ELSE b
Last(s) == s[Len(s)]

BlobFor(k, n) == [j \in 1..n |-> 100 * k + j]   \* k-th Add's bytes: fresh, distinct symbols

-----------------------------------------------------------------------------
(* Reference meaning of a list of logical edits, independent of `ps'.      *)

Covered(es, p) == \E i \in DOMAIN es : es[i].off <= p /\ p < es[i].off + es[i].old

RECURSIVE InsAt(_, _, _)
InsAt(es, p, i) ==
  IF i > Len(es) THEN <<>>
  ELSE (IF es[i].off = p THEN es[i].blob ELSE <<>>) \o InsAt(es, p, i + 1)

RECURSIVE RefFrom(_, _, _)
RefFrom(o, es, p) ==
  InsAt(es, p, 1) \o
  (IF p < Len(o)
     THEN (IF Covered(es, p) THEN <<>> ELSE <<o[p + 1]>>) \o RefFrom(o, es, p + 1)
     ELSE <<>>)

RefSplice(o, es) == RefFrom(o, es, 0)

-----------------------------------------------------------------------------
(* PatchSet.Add, transcribed.                                              *)

RECURSIVE Heads(_, _)
Heads(off, old) ==   \* the `for oldSize > uint32Max' loop
  IF old > U32 THEN <<[off |-> off, old |-> U32, blob |-> <<>>]>> \o Heads(off + U32, old - U32)
  ELSE <<>>

RECURSIVE Rest(_, _)
Rest(off, old) == IF old > U32 THEN Rest(off + U32, old - U32) ELSE <<off, old>>

AddStep(p, off, old, blob, v) ==
  LET canCoalesce ==
        /\ Len(p) > 0
        /\ (v = "NoAdjacency" \/ off = Last(p).off + Last(p).old)
        /\ Last(p).old + old <= U32
        /\ Len(Last(p).blob) + Len(blob) <= U32
  IN IF canCoalesce
       THEN [p EXCEPT ![Len(p)] = [off |-> Last(p).off, old |-> Last(p).old + old,
                                   blob |-> Last(p).blob \o blob]]
       ELSE LET r == Rest(off, old)
            IN p \o Heads(off, old) \o <<[off |-> r[1], old |-> r[2], blob |-> blob]>>

RECURSIVE PsOf(_, _)
PsOf(es, v) == IF es = <<>> THEN <<>>
               ELSE LET e == Last(es)
                    IN AddStep(PsOf(SubSeq(es, 1, Len(es) - 1), v), e.off, e.old, e.blob, v)

-----------------------------------------------------------------------------
(* The builders' domain (DESIGN.md A.1): ranges pairwise disjoint; two     *)
(* edits share an offset only inside a run of consecutive Adds at that     *)
(* offset in which all but the last are zero-length; the coalesced list    *)
(* has distinct offsets (so the unstable sort in Dump is irrelevant).      *)

Overlap(a, b) == a.off < b.off + b.old /\ b.off < a.off + a.old

InDomain(o, es) ==
  /\ \A i \in DOMAIN es : es[i].off + es[i].old <= Len(o)
  /\ \A i, j \in DOMAIN es : i < j => ~Overlap(es[i], es[j])
  /\ \A i, j \in DOMAIN es : (i < j /\ es[i].off = es[j].off) =>
        \A k \in i..(j - 1) : es[k].off = es[i].off /\ es[k].old = 0
  /\ LET c == PsOf(es, "code")
     IN \A i, j \in DOMAIN c : i # j => c[i].off # c[j].off

-----------------------------------------------------------------------------
(* Dump / Load: the wire is a sequence of cells.                           *)

SortByOff(p) == SortSeq(p, LAMBDA a, b : a.off < b.off)

RECURSIVE Flatten(_)
Flatten(ss) == IF ss = <<>> THEN <<>> ELSE Head(ss) \o Flatten(Tail(ss))

WireOf(p) ==
  <<[t |-> "ver", v |-> 1], [t |-> "num", v |-> Len(p)]>>
  \o [i \in 1..Len(p) |-> [t |-> "hdr", off |-> p[i].off, old |-> p[i].old, new |-> Len(p[i].blob)]]
  \o Flatten([i \in 1..Len(p) |-> [j \in 1..Len(p[i].blob) |-> [t |-> "byte", v |-> p[i].blob[j]]]])

\* Load(w): [ok |-> FALSE] on any short read, else the patch list.
RECURSIVE LoadBlobs(_, _, _, _)
LoadBlobs(w, hdrs, i, pos) ==     \* returns <<ok, list of blobs>>
  IF i > Len(hdrs) THEN <<TRUE, <<>>>>
  ELSE LET n == hdrs[i].new
       IN IF pos + n - 1 > Len(w)
            THEN (IF Variant = "LoadShortBlob"
                    THEN LET avail == [j \in 1..(Len(w) - pos + 1) |-> w[pos + j - 1].v]
                             r == LoadBlobs(w, hdrs, i + 1, Len(w) + 1)
                         IN <<r[1], <<avail>> \o r[2]>>
                    ELSE <<FALSE, <<>>>>)
            ELSE LET b == [j \in 1..n |-> w[pos + j - 1].v]
                     r == LoadBlobs(w, hdrs, i + 1, pos + n)
                 IN <<r[1], <<b>> \o r[2]>>

Load(w) ==
  IF Len(w) < 2 \/ w[1].v # 1 THEN [ok |-> FALSE, ps |-> <<>>]
  ELSE LET num == w[2].v
       IN IF Len(w) < 2 + num THEN [ok |-> FALSE, ps |-> <<>>]
          ELSE LET hdrs == SubSeq(w, 3, 2 + num)
                   r == LoadBlobs(w, hdrs, 1, 3 + num)
               IN IF ~r[1] THEN [ok |-> FALSE, ps |-> <<>>]
                  ELSE [ok |-> TRUE,
                        ps |-> [i \in 1..num |-> [off |-> hdrs[i].off, old |-> hdrs[i].old, blob |-> r[2][i]]]]

-----------------------------------------------------------------------------
(* Apply: the two strategies, transcribed.                                 *)

\* applyRewrite: copy up to each patch, skip the old range, write the blob, copy the tail.
RECURSIVE RW(_, _, _, _)
RW(o, p, i, pos) ==
  IF i > Len(p)
    THEN [ok |-> TRUE, data |-> IF pos < Len(o) THEN SubSeq(o, pos + 1, Len(o)) ELSE <<>>]
  ELSE LET d == p[i].off - pos
       IN IF d < 0 THEN [ok |-> FALSE, data |-> <<>>]                 \* "patches out of order"
          ELSE IF p[i].off > Len(o) THEN [ok |-> FALSE, data |-> <<>>] \* CopyN hits EOF
          ELSE LET skip == IF Variant = "NoSkip" THEN 0 ELSE p[i].old
                   r == RW(o, p, i + 1, p[i].off + skip)
               IN IF ~r.ok THEN r
                  ELSE [ok |-> TRUE, data |-> SubSeq(o, pos + 1, p[i].off) \o p[i].blob \o r.data]

Rewrite(o, p) == RW(o, p, 1, 0)

\* eligibility test in Apply (given that both paths name the same single-link regular file)
InPlaceOK(o, p) ==
  \A i \in DOMAIN p :
     \/ p[i].old = Len(p[i].blob)
     \/ /\ (i = Len(p) \/ Variant = "InPlaceNonFinal")
        /\ IF Variant = "OldEndLE" THEN p[i].off + p[i].old <= Len(o)
                                   ELSE p[i].off + p[i].old = Len(o)

\* WriteAt each blob in list order (zero fill when writing past EOF), then Truncate(size)
WriteAt(f, off, b) ==
  LET newLen == IF off + Len(b) > Len(f) /\ Len(b) > 0 THEN off + Len(b) ELSE Len(f)
  IN [k \in 1..newLen |->
        IF k > off /\ k <= off + Len(b) THEN b[k - off]
        ELSE IF k <= Len(f) THEN f[k] ELSE 0]

RECURSIVE WriteAll(_, _, _)
WriteAll(f, p, i) == IF i > Len(p) THEN f ELSE WriteAll(WriteAt(f, p[i].off, p[i].blob), p, i + 1)

IPSize(o, p) ==
  IF p # <<>> /\ Last(p).old # Len(Last(p).blob) THEN Last(p).off + Len(Last(p).blob) ELSE Len(o)

InPlace(o, p) ==
  LET f == WriteAll(o, p, 1)
      sz == IF Variant = "NoTruncate" THEN Len(f) ELSE IPSize(o, p)
  IN [ok |-> TRUE,
      data |-> [k \in 1..sz |-> IF k <= Len(f) THEN f[k] ELSE 0]]

-----------------------------------------------------------------------------
Init ==
  /\ orig \in {[i \in 1..n |-> i] : n \in 0..MaxLen}
  /\ edits = <<>> /\ ps = <<>> /\ psHist = <<>>
  /\ phase = "add"
  /\ wire = <<>> /\ loaded = [ok |-> FALSE, ps |-> <<>>]
  /\ outRW = [ok |-> FALSE, data |-> <<>>] /\ outIP = [ok |-> FALSE, data |-> <<>>]
  /\ ipEligible = FALSE

Add(off, old, n) ==
  /\ phase = "add" /\ Len(edits) < MaxAdds
  /\ LET e == [off |-> off, old |-> old, blob |-> BlobFor(Len(edits) + 1, n)]
     IN /\ InDomain(orig, Append(edits, e))
        /\ edits' = Append(edits, e)
        /\ ps' = AddStep(ps, off, old, e.blob, Variant)
        /\ psHist' = Append(psHist, ps')
  /\ UNCHANGED <<orig, phase, wire, loaded, outRW, outIP, ipEligible>>

Dump ==
  /\ phase = "add"
  /\ LET sorted == IF Variant = "NoSort" THEN ps ELSE SortByOff(ps)
     IN /\ ps' = sorted          \* Dump sorts in place
        /\ wire' = WireOf(sorted)
  /\ phase' = "dumped"
  /\ UNCHANGED <<orig, edits, psHist, loaded, outRW, outIP, ipEligible>>

DoLoad ==
  /\ phase = "dumped"
  /\ loaded' = Load(wire)
  /\ phase' = "loaded"
  /\ UNCHANGED <<orig, edits, ps, psHist, wire, outRW, outIP, ipEligible>>

Apply ==
  /\ phase = "loaded" /\ loaded.ok
  /\ outRW' = Rewrite(orig, loaded.ps)
  /\ ipEligible' = InPlaceOK(orig, loaded.ps)
  /\ outIP' = IF InPlaceOK(orig, loaded.ps) THEN InPlace(orig, loaded.ps) ELSE Rewrite(orig, loaded.ps)
  /\ phase' = "applied"
  /\ UNCHANGED <<orig, edits, ps, psHist, wire, loaded>>

Next ==
  \/ \E off \in 0..MaxLen, old \in 0..MaxLen, n \in 0..MaxBlob : Add(off, old, n)
  \/ Dump \/ DoLoad \/ Apply

Spec == Init /\ [][Next]_vars

-----------------------------------------------------------------------------
(* Properties *)

TypeOK ==
  /\ phase \in {"add", "dumped", "loaded", "applied"}
  /\ \A i \in DOMAIN ps : ps[i].old <= U32 /\ Len(ps[i].blob) <= U32 /\ ps[i].off >= 0

\* after every Add the patch list means what the logical edits mean
CoalesceSound ==
  phase = "add" =>
    LET r == Rewrite(orig, SortByOff(ps))
    IN r.ok /\ r.data = RefSplice(orig, edits)

\* serialise / parse round trip
RoundTrip == phase \in {"loaded", "applied"} => loaded.ok /\ loaded.ps = ps

\* Dump leaves the list sorted by offset
DumpSorted == phase # "add" => \A i, j \in DOMAIN ps : i < j => ps[i].off < ps[j].off

\* every proper prefix of the wire is rejected
TruncatedRejected ==
  phase = "dumped" => \A k \in 0..(Len(wire) - 1) : ~Load(SubSeq(wire, 1, k)).ok

ApplyExact ==
  phase = "applied" => outRW.ok /\ outRW.data = RefSplice(orig, edits)

StrategiesAgree ==
  phase = "applied" => outIP.ok /\ outIP.data = outRW.data

=============================================================================
