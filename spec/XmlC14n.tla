------------------------------- MODULE XmlC14n -------------------------------
(* Exclusive XML canonicalisation (W3C xml-exc-c14n, comments omitted, empty InclusiveNamespaces list) transcribed for
   small documents, and the re-serialisations that must / must not change it. relic declares this algorithm in every
   XML signature it writes (lib/xmldsig: CanonicalizationMethod and the Reference transform).

   Documents: a chain of three elements  e1 > e2 > e3  (e2 may also hold a comment, a processing instruction or text
   before e3). Every element has a name prefix, a set of namespace declarations and a set of attributes. `apex` is the
   element whose subtree is canonicalised: declarations on its ancestors are in scope but produce no output of their own.

   The rules (xml-exc-c14n section 3, plus XML-C14N 1.0 for ordering):
     - a namespace prefix is VISIBLY UTILISED by an element if the element's name or one of its attributes uses it
       (unprefixed attributes do not utilise the default namespace)
     - a declaration is rendered at an element iff the prefix is visibly utilised there and the nearest OUTPUT ancestor
       that rendered this prefix did not render the same URI
     - namespace declarations come first (default namespace, then by prefix), attributes after them ordered by
       (namespace URI, local name), unqualified attributes first
     - comments are dropped; processing instructions and text are kept                                                  *)
EXTENDS Integers, Sequences, FiniteSets, TLC

CONSTANTS DeclOpts,   \* set of declaration functions [Prefixes -> Uris \cup {""}]
          AttrOpts,   \* set of attribute sets
          Variant     \* "std" or a named deviation (negative controls; "relic" = the two deviations observed in lib/xmldsig)

Elems == 1..3
Prefixes == {"", "p", "q"}
Uris == {"urn:u1", "urn:u2"}
Miscs == {"none", "comment", "pi", "text"}

\* an explicit lexicographic order for the few strings that are compared
Ord == [s \in {"", "a", "p", "q", "urn:u1", "urn:u2", "x", "y"} |->
          CASE s = "" -> 0 [] s = "a" -> 1 [] s = "p" -> 2 [] s = "q" -> 3 [] s = "urn:u1" -> 4 [] s = "urn:u2" -> 5 [] s = "x" -> 6 [] s = "y" -> 7]

VARIABLES doc, phase
vars == <<doc, phase>>

Docs == [pfx: [Elems -> Prefixes], decl: [Elems -> DeclOpts], attrs: [Elems -> AttrOpts], apex: Elems, misc: Miscs]

\* nearest declaration of p at or above e ("" = unbound)
Bound(d, e, p) ==
  IF d.decl[e][p] # "" THEN d.decl[e][p]
  ELSE IF e = 1 THEN ""
  ELSE IF d.decl[e-1][p] # "" THEN d.decl[e-1][p]
  ELSE IF e = 2 THEN ""
  ELSE d.decl[1][p]

Util(d, e) == {d.pfx[e]} \cup {a[1] : a \in {b \in d.attrs[e] : b[1] # ""}}

WellFormed(d) ==
  \A e \in Elems : \A p \in Util(d, e) : p # "" => Bound(d, e, p) # ""

\* what the output ancestors of e (apex <= ancestor < e) have rendered for p; "" = nothing
RECURSIVE CtxAt(_, _, _)
Rendered(d, e, p) ==
  /\ (p \in Util(d, e) \/ (Variant = "RenderUnused" /\ d.decl[e][p] # ""))
  /\ (Bound(d, e, p) # CtxAt(d, e, p) \/ (Variant \in {"KeepRedundantRedecl", "relic"} /\ d.decl[e][p] # "" /\ p \in Util(d, e)))
CtxAt(d, e, p) ==
  IF e = d.apex THEN ""
  ELSE IF Rendered(d, e - 1, p) THEN Bound(d, e - 1, p) ELSE CtxAt(d, e - 1, p)

\* sort a set into a sequence by a key function into Nat
RECURSIVE SortBy(_, _)
SortBy(S, key) ==       \* key: a function on S into Nat (injective on S)
  IF S = {} THEN <<>>
  ELSE LET m == CHOOSE x \in S : \A y \in S : key[x] <= key[y]
       IN <<m>> \o SortBy(S \ {m}, key)

NsOut(d, e) ==
  LET R == {p \in Prefixes : Rendered(d, e, p)}
      sq == SortBy(R, [p \in R |-> Ord[p]])
  IN [i \in DOMAIN sq |-> <<sq[i], Bound(d, e, sq[i])>>]

AttrUri(d, e, a) == IF a[1] = "" THEN "" ELSE Bound(d, e, a[1])
AttrOut(d, e) ==
  LET K == [a \in d.attrs[e] |-> IF Variant \in {"SortByPrefix", "relic"} THEN Ord[a[1]] * 100 + Ord[a[2]]
                                  ELSE Ord[AttrUri(d, e, a)] * 100 + Ord[a[2]]]
  IN SortBy(d.attrs[e], K)

ElemOut(d, e) == [name |-> <<d.pfx[e], e>>, ns |-> NsOut(d, e), attrs |-> AttrOut(d, e)]
MiscOut(d) == IF d.apex <= 2 /\ (d.misc = "text" \/ (d.misc = "pi" /\ Variant \notin {"DropPI", "relic"})) THEN d.misc ELSE "none"
Canon(d) == [elems |-> [e \in d.apex..3 |-> ElemOut(d, e)], misc |-> MiscOut(d)]

Init == doc \in {d \in Docs : WellFormed(d)} /\ phase = "new"
Done == phase = "new" /\ phase' = "done" /\ UNCHANGED doc
Next == Done
Spec == Init /\ [][Next]_vars

-----------------------------------------------------------------------------
(* Re-serialisations. Attribute order, quoting, empty-element form and the prolog do not exist at this level (attributes
   are a set); the harness applies those lexically. *)

WithDecl(d, e, p, u) == [d EXCEPT !.decl[e] = [d.decl[e] EXCEPT ![p] = u]]
InSubtree(d, e) == e >= d.apex

\* p is not visibly utilised, through a binding that passes e, anywhere at or below e
UnusedBelow(d, e, p) == \A f \in e..3 : p \in Util(d, f) => \E g \in (e+1)..f : d.decl[g][p] # ""

\* adding a declaration nobody uses changes nothing
UnusedDeclIrrelevant ==
  \A e \in Elems, p \in Prefixes \ {""}, u \in Uris :
     (doc.decl[e][p] = "" /\ UnusedBelow(doc, e, p)) => Canon(WithDecl(doc, e, p, u)) = Canon(doc)

\* repeating a binding that is already in scope changes nothing
RedundantRedeclIrrelevant ==
  \A e \in 2..3, p \in Prefixes \ {""} :
     (doc.decl[e][p] = "" /\ Bound(doc, e, p) # "") => Canon(WithDecl(doc, e, p, Bound(doc, e, p))) = Canon(doc)

\* a comment is not part of the canonical form; a processing instruction and text are
CommentIrrelevant == doc.misc = "comment" => Canon([doc EXCEPT !.misc = "none"]) = Canon(doc)
PIMatters == (doc.misc = "pi" /\ doc.apex <= 2) => Canon([doc EXCEPT !.misc = "none"]) # Canon(doc)
TextMatters == (doc.misc = "text" /\ doc.apex <= 2) => Canon([doc EXCEPT !.misc = "none"]) # Canon(doc)

\* giving a visibly utilised prefix another namespace changes the canonical form
RebindMatters ==
  \A e \in Elems, p \in Prefixes \ {""} :
     (doc.decl[e][p] # "" /\ \E f \in e..3 : InSubtree(doc, f) /\ p \in Util(doc, f) /\ \A g \in (e+1)..f : doc.decl[g][p] = "")
        => \A u \in Uris \ {doc.decl[e][p]} : Canon(WithDecl(doc, e, p, u)) # Canon(doc)

\* attribute order follows namespace URIs, so exchanging two prefixes' URIs can reorder attributes but never
\* depends on the prefix spelling alone: two attributes with different URIs are ordered by URI
AttrOrderByUri ==
  \A e \in doc.apex..3 :
     LET s == AttrOut(doc, e) IN
       \A i, j \in DOMAIN s : i < j =>
          Ord[AttrUri(doc, e, s[i])] < Ord[AttrUri(doc, e, s[j])] \/ (AttrUri(doc, e, s[i]) = AttrUri(doc, e, s[j]) /\ Ord[s[i][2]] <= Ord[s[j][2]])
=============================================================================
