---------------------------- MODULE SignPipeline ----------------------------
(***************************************************************************)
(* The signing pipeline seen from outside: an artifact of some type is     *)
(* signed (possibly repeatedly, with differing keys and digests, alone or  *)
(* through the server), probed (IsSigned) and verified.  The artifact is   *)
(* abstract: payload identity, the list of signatures it carries, and      *)
(* whether it is well formed.  Support is three-valued: Supported =>       *)
(* signing MUST succeed; otherwise relic MAY refuse, and if it does not,   *)
(* the result must still verify.  This model contributes the enumeration   *)
(* of cases/histories and the expected observations; it does not model     *)
(* bytes.                                                                  *)
(***************************************************************************)
EXTENDS Integers, Sequences, FiniteSets, TLC

CONSTANTS Types, KeysX509, KeysPgp, Digests, Modes, MaxRounds,
          Variant   \* "code" | "Stacks" | "RefuseMutates" | "DropsPayload" | "WrongDigestNamed" | "ProbeBlind" | "SlotDropsOthers"

PgpTypes == {"deb", "rpm", "pgp-detached", "pgp-clearsign", "pgp-inline"}

\* input layout variants of a type's fixture (the harness derives them from the fixture with standard writers)
VariantsOf(t) ==
  CASE t = "jar" -> {"plain", "nested-metainf"}          \* payload files under META-INF/<dir>/ named like signature files
    [] t = "pe-dll" -> {"plain", "overlay1", "overlay3", "overlay5", "overlay8"}   \* trailing data, file length not 8-aligned
    [] t = "pgp-inline" -> {"len191", "len192", "len8383", "len8384", "len8385"}    \* literal packet length encoding boundaries
    [] t \in {"ps1", "ps1xml", "mof"} -> {"plain", "utf16le"}      \* PowerShell-family files are commonly UTF-16-LE with a byte-order mark
    [] t = "pgp-clearsign" -> {"plain", "longline", "no-final-newline", "dash-lines", "crlf", "trailing-space"}   \* text shapes the cleartext framework treats specially
    [] t = "cab" -> {"plain", "datareserve"}     \* a cabinet whose header declares reserved bytes in every data block
    [] OTHER -> {"plain"}

\* signer options that may differ between rounds (alt = TRUE selects the type's alternative option set)
\* (for deb the alternative option set is the other signing role: "origin" instead of the default "builder")
AltOf(t) == IF t \in {"msi", "pe-dll", "pe-exe", "jar", "vsix", "deb"} THEN BOOLEAN ELSE {FALSE}
SlotTypes == {"deb"}        \* named signature slots: re-signing replaces the slot of the same role
WrapTypes == {"pgp-detached", "pgp-clearsign", "pgp-inline"}   \* output is a new wrapper around / beside the input, not the input re-written

\* digests each type documents (doc/ + README; calibrated against the pinned tree)
DigestsOf(t) ==
  CASE t = "apk" -> {"sha256", "sha512"}
    [] t = "appx" -> {"sha256", "sha384", "sha512"}
    [] t \in {"dmg", "macho", "macho-fat"} -> {"sha1", "sha256", "sha384"}
    [] t \in {"manifest", "vsix"} -> {"sha1", "sha224", "sha256", "sha384", "sha512"}
    [] t = "pkg" -> {"sha1", "sha256", "sha512"}
    [] t \in {"deb", "pgp-detached", "pgp-clearsign", "pgp-inline"} -> {"sha224", "sha256", "sha384", "sha512"}
    [] t = "rpm" -> {"sha1", "sha224", "sha256", "sha384", "sha512"}
    [] OTHER -> {"md5", "sha1", "sha224", "sha256", "sha384", "sha512"}

KeysOf(t) == IF t \in PgpTypes THEN KeysPgp ELSE KeysX509
Supported(t, k, d, alt) ==
  /\ k \in KeysOf(t) /\ d \in DigestsOf(t)
  /\ (alt /\ t \in {"pe-dll", "pe-exe"}) => d \in {"sha1", "sha256"}    \* page hashes exist for SHA-1 / SHA-256 only

\* input shapes relic does not handle and must refuse rather than mis-write: a cabinet with per-data-block reserve (its
\* rewritten header could not describe the blocks)
ShapeSupported(t, v) == ~(t = "cab" /\ v = "datareserve")

VARIABLES typ, mode, variant,
          rounds,    \* history so far: sequence of [key, digest, outcome]
          sigs,      \* signatures the artifact carries: sequence of [key, digest]
          payloadOK, \* payload items equal to the original input's
          wellFormed,
          probe      \* what IsSigned answers for the current artifact

vars == <<typ, mode, variant, rounds, sigs, payloadOK, wellFormed, probe>>

Init ==
  /\ typ \in Types /\ mode \in Modes /\ variant \in VariantsOf(typ)
  /\ rounds = <<>> /\ sigs = <<>> /\ payloadOK = TRUE /\ wellFormed = TRUE /\ probe = FALSE

Sign(k, d, alt) ==
  /\ Len(rounds) < MaxRounds /\ alt \in AltOf(typ)
  /\ k \in KeysOf(typ)          \* a PGP type is only ever configured with a PGP key and vice versa
  /\ IF Supported(typ, k, d, alt) /\ ShapeSupported(typ, variant)
       THEN /\ sigs' = LET new == [key |-> k, digest |-> IF Variant = "WrongDigestNamed" THEN "sha256" ELSE d, slot |-> alt] IN
                       IF Variant = "Stacks" THEN Append(sigs, new)
                       \* a named slot is replaced, the other slots stay (deviation "SlotDropsOthers": they are lost)
                       ELSE IF typ \in SlotTypes /\ Variant # "SlotDropsOthers" THEN SelectSeq(sigs, LAMBDA x : x.slot # alt) \o <<new>>
                       ELSE <<new>>
            /\ payloadOK' = (payloadOK /\ Variant # "DropsPayload")
            /\ probe' = (Variant # "ProbeBlind")
            /\ rounds' = Append(rounds, [key |-> k, digest |-> d, alt |-> alt, outcome |-> "ok"])
            /\ UNCHANGED wellFormed
       ELSE /\ rounds' = Append(rounds, [key |-> k, digest |-> d, alt |-> alt, outcome |-> "refuse"])
            /\ wellFormed' = (wellFormed /\ Variant # "RefuseMutates")
            /\ UNCHANGED <<sigs, payloadOK, probe>>
  /\ UNCHANGED <<typ, mode, variant>>

Next == \E k \in KeysX509 \cup KeysPgp, d \in Digests, alt \in BOOLEAN : Sign(k, d, alt)
Spec == Init /\ [][Next]_vars

-----------------------------------------------------------------------------
LastOK == {i \in DOMAIN rounds : rounds[i].outcome = "ok"}

\* after a successful signing the artifact verifies and names the key and digest of THAT round
SignedVerifies ==
  (rounds # <<>> /\ rounds[Len(rounds)].outcome = "ok") =>
     (wellFormed /\ sigs # <<>> /\ sigs[Len(sigs)].key = rounds[Len(rounds)].key /\ sigs[Len(sigs)].digest = rounds[Len(rounds)].digest)

\* re-signing replaces: exactly one signature, whatever the history
\* (one per role that was ever signed, for formats with named slots)
ReplacesNotStacks == LastOK # {} => Len(sigs) = (IF typ \in SlotTypes THEN Cardinality({rounds[i].alt : i \in LastOK}) ELSE 1)

PayloadPreserved == payloadOK
RefusalLeavesInput == wellFormed
ProbeIff == probe <=> (LastOK # {})
=============================================================================
