----------------------------- MODULE ServeSignals -----------------------------
(* The life of the `relic serve` process under signals: cmdline/servecmd (watchSignals) over server/daemon (Serve, Close).

     SIGUSR1                      nothing ("no longer used")
     first SIGINT / SIGTERM / SIGQUIT / SIGUSR2
                                  graceful shutdown: the listeners close at once (new connections are refused), requests in
                                  flight are served to the end, then the tokens are closed and the process exits with 0
     any further one of them      the process exits at once with 0; requests still in flight are cut off

   Requests are the client's: Begin (connection accepted, request started), Finish (answered in full).  Relic.tla models
   what Close does inside the process (drain, token close order); this module is the process boundary: which signal does
   what, when the port stops answering, when and how the process ends. *)
EXTENDS Integers, FiniteSets, TLC

CONSTANTS Reqs,      \* request ids
          MaxSignals,
          Variant    \* "code" | "ExitAtFirstSignal" | "Usr1Stops" | "AcceptWhileDraining" | "SecondSignalIgnored" | "ExitNonZero"

TermSignals == {"INT", "TERM", "QUIT", "USR2"}
Signals == TermSignals \cup {"USR1"}

VARIABLES phase,     \* "running" | "draining" | "exited"
          state,     \* Reqs -> "new" | "inflight" | "answered" | "refused" | "cut"
          nsig,      \* signals delivered so far
          nterm,     \* terminating signals among them
          code       \* exit status (-1 while alive)
vars == <<phase, state, nsig, nterm, code>>

Init == phase = "running" /\ state = [r \in Reqs |-> "new"] /\ nsig = 0 /\ nterm = 0 /\ code = -1

Begin(r) ==
  /\ state[r] = "new" /\ (phase = "running" \/ (phase = "draining" /\ Variant = "AcceptWhileDraining"))
  /\ state' = [state EXCEPT ![r] = "inflight"] /\ UNCHANGED <<phase, nsig, nterm, code>>

\* a connection attempt once the listeners are closed (or the process is gone)
Refused(r) ==
  /\ state[r] = "new" /\ (phase = "exited" \/ (phase = "draining" /\ Variant # "AcceptWhileDraining"))
  /\ state' = [state EXCEPT ![r] = "refused"] /\ UNCHANGED <<phase, nsig, nterm, code>>

Finish(r) ==
  /\ state[r] = "inflight" /\ phase # "exited"
  /\ state' = [state EXCEPT ![r] = "answered"] /\ UNCHANGED <<phase, nsig, nterm, code>>

ExitNow == /\ phase' = "exited" /\ code' = (IF Variant = "ExitNonZero" THEN 1 ELSE 0)
           /\ state' = [r \in Reqs |-> IF state[r] = "inflight" THEN "cut" ELSE state[r]]

Signal(s) ==
  /\ phase # "exited" /\ nsig < MaxSignals /\ nsig' = nsig + 1
  /\ nterm' = IF s \in TermSignals THEN nterm + 1 ELSE nterm
  /\ IF s = "USR1" /\ Variant # "Usr1Stops"
       THEN UNCHANGED <<phase, state, code>>
       ELSE IF phase = "running"
              THEN IF Variant = "ExitAtFirstSignal" THEN ExitNow ELSE phase' = "draining" /\ UNCHANGED <<state, code>>
              ELSE IF Variant = "SecondSignalIgnored" THEN UNCHANGED <<phase, state, code>> ELSE ExitNow

\* everything in flight has been answered: tokens closed, Serve returns, the process ends
DrainDone ==
  /\ phase = "draining" /\ \A r \in Reqs : state[r] # "inflight"
  /\ phase' = "exited" /\ code' = (IF Variant = "ExitNonZero" THEN 1 ELSE 0) /\ UNCHANGED <<state, nsig, nterm>>

Next == (\E r \in Reqs : Begin(r) \/ Refused(r) \/ Finish(r)) \/ (\E s \in Signals : Signal(s)) \/ DrainDone
\* the process does its part (finishing what is in flight is the client's and the server's joint business: fair here)
Spec == Init /\ [][Next]_vars /\ WF_vars(DrainDone) /\ \A r \in Reqs : WF_vars(Finish(r))

-----------------------------------------------------------------------------
TypeOK == phase \in {"running", "draining", "exited"} /\ code \in {-1, 0, 1}
\* one terminating signal loses nothing
GracefulLosesNothing == (phase = "exited" /\ nterm <= 1) => \A r \in Reqs : state[r] # "cut"
\* SIGUSR1 alone never stops the server
Usr1Harmless == nterm = 0 => phase = "running"
\* once shutdown has begun nothing new is taken on
NothingNewWhileDraining == [][\A r \in Reqs : (state[r] = "new" /\ state'[r] = "inflight") => phase = "running"]_vars
\* the process always ends with status 0 (a shutdown on request is not a failure)
ExitZero == phase = "exited" => code = 0
\* a second terminating signal ends the process there and then
SecondSignalEnds == nterm >= 2 => phase = "exited"
\* a first signal is followed by the end of the process
ShutdownCompletes == (phase = "draining") ~> (phase = "exited")
=============================================================================
