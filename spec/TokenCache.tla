----------------------------- MODULE TokenCache -----------------------------
(***************************************************************************)
(* token/tokencache/cache.go: Cache.GetKey holds one mutex for the whole   *)
(* lookup-or-fetch; entries are per key NAME, expire, and are bypassed     *)
(* (neither served nor stored) when the caller pins a key id that differs. *)
(* The base token owns key rotation: an unpinned fetch returns the current *)
(* id, a pinned fetch returns exactly that id or fails.                    *)
(* Steps: Begin (acquire mu) -> Lookup (hit: return | miss) -> Fetch (base *)
(* GetKey) -> Store -> End (release mu).  Rotate and Expire are            *)
(* environment steps that interleave anywhere.                             *)
(***************************************************************************)
EXTENDS Integers, Sequences, FiniteSets, TLC

CONSTANTS Clients, Names, MaxId, MaxOps,
          Variant   \* "code" | "NoMutex" | "IgnoreKeyId" | "CachePinned" | "KeyByToken" | "StaleOnError"

None == 0
VARIABLES cache,    \* Names -> [id, fresh, forName] | id = None when empty
          cur,      \* Names -> current key id in the token
          held,     \* Names -> set of ids the token can still produce when pinned
          pc,       \* Clients -> "idle" | "begun" | "missed" | "fetched" | "done"
          req,      \* Clients -> [name, want]
          got,      \* Clients -> id fetched/returned (None = error)
          fromCache,\* Clients -> BOOLEAN: result came from the cache
          curAtRet, \* Clients -> token's current id for the name at the moment of return (ghost)
          ops,      \* number of environment + request steps taken (bound)
          down      \* the base token is failing (transiently): every fetch errors

vars == <<cache, cur, held, pc, req, got, fromCache, curAtRet, ops, down>>

Slot(n) == IF Variant = "KeyByToken" THEN CHOOSE m \in Names : TRUE ELSE n
Empty == [id |-> None, fresh |-> FALSE, forName |-> CHOOSE m \in Names : TRUE]

Init ==
  /\ cache = [n \in Names |-> Empty]
  /\ cur = [n \in Names |-> 1]
  /\ held = [n \in Names |-> {1}]
  /\ pc = [c \in Clients |-> "idle"]
  /\ req = [c \in Clients |-> [name |-> CHOOSE m \in Names : TRUE, want |-> None]]
  /\ got = [c \in Clients |-> None]
  /\ fromCache = [c \in Clients |-> FALSE]
  /\ curAtRet = [c \in Clients |-> None]
  /\ ops = 0 /\ down = FALSE

InCrit(c) == pc[c] \in {"begun", "missed", "fetched"}

Begin(c, n, w) ==
  /\ pc[c] = "idle" /\ ops < MaxOps
  /\ (Variant = "NoMutex" \/ \A d \in Clients : ~InCrit(d))
  /\ pc' = [pc EXCEPT ![c] = "begun"]
  /\ req' = [req EXCEPT ![c] = [name |-> n, want |-> w]]
  /\ ops' = ops + 1
  /\ UNCHANGED <<cache, cur, held, got, fromCache, curAtRet, down>>

Lookup(c) ==
  /\ pc[c] = "begun"
  /\ LET e == cache[Slot(req[c].name)]
         hit == e.id # None /\ e.fresh /\ (req[c].want = None \/ req[c].want = e.id \/ Variant = "IgnoreKeyId")
     IN IF hit
          THEN /\ pc' = [pc EXCEPT ![c] = "done"]
               /\ got' = [got EXCEPT ![c] = e.id]
               /\ fromCache' = [fromCache EXCEPT ![c] = TRUE]
               /\ curAtRet' = [curAtRet EXCEPT ![c] = cur[req[c].name]]
          ELSE /\ pc' = [pc EXCEPT ![c] = "missed"]
               /\ UNCHANGED <<got, fromCache, curAtRet>>
  /\ UNCHANGED <<cache, cur, held, req, ops, down>>

Fetch(c) ==   \* base token GetKey: honours the pinned id or fails
  /\ pc[c] = "missed"
  /\ LET n == req[c].name
         w == req[c].want
         e == cache[Slot(n)]
         \* deviation "StaleOnError": a failing fetch is papered over with whatever entry the cache still has for the name
         stale == Variant = "StaleOnError" /\ down /\ e.id # None
         id == IF stale THEN e.id ELSE IF down THEN None ELSE IF w = None THEN cur[n] ELSE IF w \in held[n] THEN w ELSE None
     IN /\ got' = [got EXCEPT ![c] = id]
        /\ fromCache' = [fromCache EXCEPT ![c] = stale]
        /\ curAtRet' = [curAtRet EXCEPT ![c] = cur[n]]
        /\ pc' = [pc EXCEPT ![c] = IF id = None \/ stale THEN "done" ELSE "fetched"]
  /\ UNCHANGED <<cache, cur, held, req, ops, down>>

Store(c) ==
  /\ pc[c] = "fetched"
  /\ cache' = IF req[c].want = None \/ Variant = "CachePinned"
                THEN [cache EXCEPT ![Slot(req[c].name)] = [id |-> got[c], fresh |-> TRUE, forName |-> req[c].name]]
                ELSE cache
  /\ pc' = [pc EXCEPT ![c] = "done"]
  /\ UNCHANGED <<cur, held, req, got, fromCache, curAtRet, ops, down>>

Reset(c) == /\ pc[c] = "done" /\ pc' = [pc EXCEPT ![c] = "idle"]
            /\ UNCHANGED <<cache, cur, held, req, got, fromCache, curAtRet, ops, down>>

Rotate(n, keepOld) ==
  /\ cur[n] < MaxId /\ ops < MaxOps
  /\ cur' = [cur EXCEPT ![n] = @ + 1]
  /\ held' = [held EXCEPT ![n] = IF keepOld THEN @ \cup {cur[n] + 1} ELSE {cur[n] + 1}]
  /\ ops' = ops + 1
  /\ UNCHANGED <<cache, pc, req, got, fromCache, curAtRet, down>>

Expire ==   \* the cache lifetime passes
  /\ ops < MaxOps /\ \E n \in Names : cache[n].fresh
  /\ cache' = [n \in Names |-> [cache[n] EXCEPT !.fresh = FALSE]]
  /\ ops' = ops + 1
  /\ UNCHANGED <<cur, held, pc, req, got, fromCache, curAtRet, down>>

\* the base token starts / stops failing
Outage ==
  /\ ops < MaxOps /\ down' = ~down /\ ops' = ops + 1
  /\ UNCHANGED <<cache, cur, held, pc, req, got, fromCache, curAtRet>>

Next ==
  \/ Outage
  \/ \E c \in Clients, n \in Names, w \in 0..MaxId : Begin(c, n, w)
  \/ \E c \in Clients : Lookup(c) \/ Fetch(c) \/ Store(c) \/ Reset(c)
  \/ \E n \in Names, k \in BOOLEAN : Rotate(n, k)
  \/ Expire

Spec == Init /\ [][Next]_vars

-----------------------------------------------------------------------------
TypeOK == \A c \in Clients : pc[c] \in {"idle", "begun", "missed", "fetched", "done"}

MutexExclusive == \A c, d \in Clients : (InCrit(c) /\ InCrit(d)) => c = d

\* a request that pins a key id never receives a key with a different id
PinnedNeverWrong ==
  \A c \in Clients : (pc[c] = "done" /\ req[c].want # None /\ got[c] # None) => got[c] = req[c].want

\* after a miss the only way to a result is a successful fetch (which passes through "fetched"): a fetch that fails is
\* an error for the caller, whatever the cache may still hold
FailedFetchIsError ==
  [][\A c \in Clients : (pc[c] = "missed" /\ pc'[c] = "done") => got'[c] = None]_vars

\* pinned lookups never populate the cache
PinnedNotCached ==
  [][\A c \in Clients : (pc[c] = "fetched" /\ pc'[c] = "done" /\ req[c].want # None) => cache' = cache]_vars

\* an entry is only ever served for the name it was fetched for
CacheNameSound == \A n \in Names : cache[n].id # None => cache[n].forName = n

\* an unpinned result that did not come from the cache is the token's current key
FetchIsCurrent ==
  \A c \in Clients : (pc[c] = "done" /\ ~fromCache[c] /\ req[c].want = None /\ got[c] # None) => got[c] = curAtRet[c]
=============================================================================
