------------------------------- MODULE CloudKey -------------------------------
(* A key that lives in a cloud key-management service: token/awstoken (AWS KMS).  The token holds no key material; GetKey
   fetches the public key, every signature is one remote Sign call on a digest.

     GetKey(name)   the key entry must carry `id` (key id or ARN), else an error before anything is asked;
                    kms:GetPublicKey(id) -> SubjectPublicKeyInfo, parsed
     Sign(digest, opts)
                    the signing algorithm is chosen from the key type, the digest algorithm and - for RSA - whether the
                    caller asked for PSS: {RSASSA_PKCS1_V1_5, RSASSA_PSS, ECDSA} x {SHA_256, SHA_384, SHA_512}; any other
                    digest algorithm is refused locally (token.KeyUsageError), nothing is asked;
                    kms:Sign(id, digest, MessageType = DIGEST, algorithm) -> the signature, returned as it is

   The service has rules of its own, which the token does not anticipate: an ECC_NIST_P256 key signs only ECDSA_SHA_256,
   a P-384 key only ECDSA_SHA_384 (anything else: InvalidKeyUsageException), and a digest must have the length of the
   algorithm's hash.  The SDK repeats a call the service throttled or failed internally (at most MaxAttempts in all);
   other refusals are final.  Service-side faults are scripted per operation by `faults`. *)
EXTENDS Integers, Sequences, FiniteSets, TLC

CONSTANTS MaxAttempts,   \* 3: the SDK's default
          Variant        \* "code" | "RememberAlgorithm" | "Sha1AsSha256" | "PssIgnored" | "SwallowSignError" | "RawMessage" | "RetryForever" | "AskWithoutId"

Specs == {"RSA_2048", "ECC_NIST_P256", "ECC_NIST_P384"}
Hashes == {"sha1", "sha256", "sha384", "sha512"}
GetFaults == {"none", "denied", "notfound", "badpub", "throttle-once", "internal-once", "throttle-always"}
SignFaults == {"none", "denied", "unavailable", "throttle-once", "internal-once", "throttle-always"}
Transient(f) == f \in {"throttle-once", "internal-once", "throttle-always", "unavailable"}

VARIABLES cfg,      \* [spec, idSet]
          req,      \* [hash, pss]: the signature being made
          later,    \* signatures still to be made with the same key object: a sequence of [hash, pss] (at most one)
          faults,   \* [get, sign]
          pc,       \* "getkey" | "asking-key" | "sign" | "asking-sign" | "done"
          calls,    \* remote calls so far: <<[op, alg, mtype, outcome]>>
          tries,    \* attempts of the call in progress
          result    \* "none" | "signature" | "error"
          , done    \* the requests already served: <<[hash, pss, first, last]>> (indices into calls)
vars == <<cfg, req, later, faults, pc, calls, tries, result, done>>

KeyType(s) == IF s = "RSA_2048" THEN "rsa" ELSE "ec"
HashName(h) == CASE h = "sha256" -> "SHA_256" [] h = "sha384" -> "SHA_384" [] h = "sha512" -> "SHA_512" [] OTHER -> "?"
\* the algorithm the request ought to name
AlgOf(s, h, p) == IF KeyType(s) = "ec" THEN "ECDSA_" \o HashName(h)
                  ELSE IF p THEN "RSASSA_PSS_" \o HashName(h) ELSE "RSASSA_PKCS1_V1_5_" \o HashName(h)
\* what the service accepts for a key spec
Accepts(s, a) == CASE s = "RSA_2048" -> TRUE [] s = "ECC_NIST_P256" -> a = "ECDSA_SHA_256" [] OTHER -> a = "ECDSA_SHA_384"

Init ==
  /\ cfg \in [spec : Specs, idSet : BOOLEAN]
  /\ req \in [hash : Hashes, pss : BOOLEAN]
  /\ faults \in [get : GetFaults, sign : SignFaults]
  /\ (faults.get # "none" => faults.sign = "none")
  /\ (KeyType(cfg.spec) = "ec" => ~req.pss)
  /\ ((Transient(faults.get) \/ Transient(faults.sign)) => (req.hash \in {"sha256", "sha384"} /\ ~req.pss))
  \* a second signature with the same key object and other options: only where nothing is scripted to fail
  /\ later \in {<<>>} \cup {<<r>> : r \in [hash : Hashes \ {"sha1"}, pss : BOOLEAN]}
  /\ (later # <<>> => (faults.get = "none" /\ faults.sign = "none" /\ req.hash # "sha1" /\ later[1] # req
                        /\ (KeyType(cfg.spec) = "ec" => ~later[1].pss)))
  /\ done = <<>>
  /\ pc = "getkey" /\ calls = <<>> /\ tries = 0 /\ result = "none"

Call(op, alg, mtype, outcome) == Append(calls, [op |-> op, alg |-> alg, mtype |-> mtype, outcome |-> outcome])

\* the outcome of attempt n of an operation under fault f
Outcome(f, n) ==
  CASE f = "denied" -> "AccessDeniedException" [] f = "notfound" -> "NotFoundException" [] f = "unavailable" -> "KeyUnavailableException"
    [] f = "throttle-always" -> "ThrottlingException"
    [] f = "throttle-once" /\ n = 1 -> "ThrottlingException" [] f = "internal-once" /\ n = 1 -> "KMSInternalException"
    [] OTHER -> "ok"
Retryable(o) == o \in {"ThrottlingException", "KMSInternalException", "KeyUnavailableException"}

GetKey ==
  /\ pc = "getkey"
  /\ IF ~cfg.idSet /\ Variant # "AskWithoutId" THEN pc' = "done" /\ result' = "error" ELSE pc' = "asking-key" /\ UNCHANGED result
  /\ UNCHANGED <<cfg, req, later, faults, calls, tries, done>>

AskKey ==
  /\ pc = "asking-key"
  /\ LET o == IF cfg.idSet THEN Outcome(faults.get, tries + 1) ELSE "NotFoundException"
     IN /\ calls' = Call("GetPublicKey", "", "", o)
        /\ IF o = "ok" THEN IF faults.get = "badpub" THEN pc' = "done" /\ result' = "error" /\ tries' = 0
                                                      ELSE pc' = "sign" /\ tries' = 0 /\ UNCHANGED result
           ELSE IF Retryable(o) /\ (tries + 1 < MaxAttempts \/ Variant = "RetryForever") THEN tries' = tries + 1 /\ UNCHANGED <<pc, result>>
           ELSE pc' = "done" /\ result' = "error" /\ tries' = 0
  /\ UNCHANGED <<cfg, req, later, faults, done>>

\* algorithm selection, locally
Sign ==
  /\ pc = "sign"
  /\ IF req.hash = "sha1" /\ Variant # "Sha1AsSha256" THEN pc' = "done" /\ result' = "error" ELSE pc' = "asking-sign" /\ UNCHANGED result
  /\ UNCHANGED <<cfg, req, later, faults, calls, tries, done>>

PipeAlg ==
  LET h == IF req.hash = "sha1" THEN "sha256" ELSE req.hash
      prev == {i \in DOMAIN done : done[i].hash = req.hash}
  IN IF Variant = "RememberAlgorithm" /\ prev # {} THEN calls[done[CHOOSE i \in prev : TRUE].last].alg
     ELSE AlgOf(cfg.spec, h, req.pss /\ Variant # "PssIgnored")

AskSign ==
  /\ pc = "asking-sign"
  /\ LET a == PipeAlg
         mt == IF Variant = "RawMessage" THEN "RAW" ELSE "DIGEST"
         f == Outcome(faults.sign, tries + 1)
         o == IF f # "ok" THEN f
              ELSE IF ~Accepts(cfg.spec, a) THEN "InvalidKeyUsageException"
              ELSE IF req.hash = "sha1" /\ mt = "DIGEST" THEN "ValidationException"     \* a 20-byte digest for SHA_256
              ELSE "ok"
     IN /\ calls' = Call("Sign", a, mt, o)
        /\ IF o = "ok"
             THEN /\ tries' = 0 /\ done' = Append(done, [hash |-> req.hash, pss |-> req.pss, last |-> Len(calls) + 1])
                  /\ IF later = <<>> THEN pc' = "done" /\ result' = "signature" /\ UNCHANGED <<req, later>>
                                     ELSE pc' = "sign" /\ req' = later[1] /\ later' = <<>> /\ UNCHANGED result
           ELSE IF Retryable(o) /\ (tries + 1 < MaxAttempts \/ Variant = "RetryForever") THEN tries' = tries + 1 /\ UNCHANGED <<pc, result, req, later, done>>
           ELSE /\ pc' = "done" /\ tries' = 0 /\ UNCHANGED <<req, later, done>>
                /\ result' = IF Variant = "SwallowSignError" THEN "signature" ELSE "error"
  /\ UNCHANGED <<cfg, faults>>

Next == GetKey \/ AskKey \/ Sign \/ AskSign
Spec == Init /\ [][Next]_vars /\ WF_vars(Next)

-----------------------------------------------------------------------------
SignCalls == {i \in DOMAIN calls : calls[i].op = "Sign"}
TypeOK == pc \in {"getkey", "asking-key", "sign", "asking-sign", "done"} /\ result \in {"none", "signature", "error"} /\ tries \in 0..(MaxAttempts + 4)

\* nothing is asked about a key entry that names no key
NoCallWithoutId == ~cfg.idSet => calls = <<>>
\* a digest algorithm the token does not support is refused here, not sent under another name
LocalRefusal == (req.hash = "sha1" /\ done = <<>>) => SignCalls = {}
\* the request names the algorithm the caller's options stand for, on a digest
\* (the request a call belongs to: a served one whose last call it is or precedes, else the one in progress)
ReqOf(i) == LET d == {j \in DOMAIN done : i <= done[j].last /\ (j = 1 \/ i > done[j-1].last)}
            IN IF d = {} THEN req ELSE [hash |-> done[CHOOSE j \in d : TRUE].hash, pss |-> done[CHOOSE j \in d : TRUE].pss]
AlgorithmRight == \A i \in SignCalls : calls[i].alg = AlgOf(cfg.spec, ReqOf(i).hash, ReqOf(i).pss) /\ calls[i].mtype = "DIGEST"
\* a signature comes only from the service's successful answer
SignatureFromService == result = "signature" => (SignCalls # {} /\ calls[Len(calls)].op = "Sign" /\ calls[Len(calls)].outcome = "ok")
\* a refusal or a fault that outlasts the retries is reported
ErrorsSurface == (pc = "done" /\ calls # <<>> /\ calls[Len(calls)].outcome # "ok") => result = "error"
\* no operation is attempted more often than the SDK allows
BoundedAttempts == Cardinality(SignCalls) <= MaxAttempts + Len(done) /\ Len(calls) - Cardinality(SignCalls) <= MaxAttempts
\* a transient fault that clears is invisible to the caller
TransientIsHidden == (pc = "done" /\ cfg.idSet /\ faults.get \in {"none", "throttle-once", "internal-once"}
                        /\ faults.sign \in {"none", "throttle-once", "internal-once"}
                        /\ req.hash # "sha1" /\ Accepts(cfg.spec, AlgOf(cfg.spec, req.hash, req.pss))) => result = "signature"
Terminates == <>(pc = "done")
Bounded == Len(calls) <= MaxAttempts + 3
=============================================================================
