------------------------------ MODULE WorkerLife ------------------------------
(* The life of relic's token worker processes. A PKCS#11 token is never used inside the server: token/worker/worker.go
   New spawns `relic worker <config> <token>` processes (Server.NumWorkers of them) that share one listening socket;
   monitor() keeps their number up; cmdline/workercmd runs in each: it opens the token (library, session, login with the
   configured PIN), tells the parent it is ready, serves sign requests, checks the token's health every
   TokenCheckInterval seconds, and on a token error it considers fatal (handler.go fatalErrors), a failing health check
   or SIGTERM it tells the parent it is stopping, finishes the requests in flight and exits.

   Workers are numbered in the order in which they reach the token (one connection of the token model per process).

     Spawn(i)       monitor: fewer live workers than wanted, not closing -> a new process; it loads the library
     LoginOK(i)     the token accepts the configured PIN: the worker becomes ready and serves
     LoginBad(i)    the token rejects it (wrong, or locked): the worker exits at once ("exited prematurely");
                    monitor waits restartDelay and spawns again
     SignOK / SignRefused / SignFatal(i)   a request's C_Sign on worker i; a fatal answer makes the worker drain
     PingFail(i)    the health check fails: the worker drains
     Kill(i)        the process dies (SIGKILL, crash)
     Exit(i)        a draining worker has finished and is gone
     ChangePin      somebody changes the PIN on the token: the configured one is now wrong
     Close          WorkerToken.Close: no more spawning, SIGTERM to every worker

   The hazard this module exists to state: a rejected PIN is tried again by every respawn, ten seconds apart, with no
   bound; three rejections lock the user PIN of an ordinary HSM. NoLockout fails for the code as it is
   (WorkerLife_Finding_Lockout.cfg keeps the counterexample); with Variant = "StopOnPinReject" it holds. *)
EXTENDS Integers, Sequences, FiniteSets, TLC

CONSTANTS Target,      \* workers wanted (Server.NumWorkers, at least 1)
          MaxSpawns,   \* bound on processes per behaviour
          MaxSigns,    \* bound on sign calls per behaviour
          Tries0,      \* the token's PIN retry counter
          Variant      \* "code" | "StopOnPinReject" | "SpawnWhileClosing"

States == {"unborn", "opening", "serving", "draining", "failing", "gone"}

VARIABLES w,         \* [1..MaxSpawns -> States]
          born,      \* processes spawned so far
          closing,   \* Close has begun
          pinOK,     \* the configured PIN is the token's PIN
          tries,     \* the token's remaining PIN tries
          rejected,  \* PIN submissions the token rejected
          gaveUp,    \* (StopOnPinReject) the monitor no longer respawns
          nsign      \* sign calls so far
vars == <<w, born, closing, pinOK, tries, rejected, gaveUp, nsign>>

Ids == 1..MaxSpawns
Live == {i \in Ids : w[i] \in {"opening", "serving"}}

Init ==
  /\ w = [i \in Ids |-> "unborn"] /\ born = 0 /\ closing = FALSE /\ pinOK \in BOOLEAN
  /\ tries = Tries0 /\ rejected = 0 /\ gaveUp = FALSE /\ nsign = 0

Spawn ==
  /\ born < MaxSpawns /\ Cardinality(Live) < Target /\ ~gaveUp
  /\ (closing => Variant = "SpawnWhileClosing")
  /\ born' = born + 1 /\ w' = [w EXCEPT ![born + 1] = "opening"]
  /\ UNCHANGED <<closing, pinOK, tries, rejected, gaveUp, nsign>>

LoginOK(i) ==
  /\ w[i] = "opening" /\ pinOK /\ tries > 0
  /\ w' = [w EXCEPT ![i] = "serving"] /\ tries' = Tries0
  /\ UNCHANGED <<born, closing, pinOK, rejected, gaveUp, nsign>>

\* the configured PIN is submitted whatever happened to earlier workers
LoginBad(i) ==
  /\ w[i] = "opening" /\ (~pinOK \/ tries = 0)
  /\ w' = [w EXCEPT ![i] = "failing"] /\ rejected' = rejected + 1
  /\ tries' = IF tries > 0 THEN tries - 1 ELSE 0
  /\ gaveUp' = (Variant = "StopOnPinReject")
  /\ UNCHANGED <<born, closing, pinOK, nsign>>

SignOK(i) ==
  /\ w[i] \in {"serving", "draining"} /\ nsign < MaxSigns
  /\ nsign' = nsign + 1 /\ UNCHANGED <<w, born, closing, pinOK, tries, rejected, gaveUp>>

\* an error the worker does not consider fatal (handler.go: "probably user error"): reported, the worker stays
SignRefused(i) ==
  /\ w[i] \in {"serving", "draining"} /\ nsign < MaxSigns
  /\ nsign' = nsign + 1 /\ UNCHANGED <<w, born, closing, pinOK, tries, rejected, gaveUp>>

\* a fatal token error: the worker tells the parent it is doomed and stops taking requests
SignFatal(i) ==
  /\ w[i] = "serving" /\ nsign < MaxSigns
  /\ nsign' = nsign + 1 /\ w' = [w EXCEPT ![i] = "draining"]
  /\ UNCHANGED <<born, closing, pinOK, tries, rejected, gaveUp>>

PingFail(i) ==
  /\ w[i] = "serving"
  /\ w' = [w EXCEPT ![i] = "draining"]
  /\ UNCHANGED <<born, closing, pinOK, tries, rejected, gaveUp, nsign>>

Kill(i) ==
  /\ w[i] \in {"opening", "serving", "draining"}
  /\ w' = [w EXCEPT ![i] = "gone"]
  /\ UNCHANGED <<born, closing, pinOK, tries, rejected, gaveUp, nsign>>

Exit(i) ==
  /\ w[i] \in {"draining", "failing"}
  /\ w' = [w EXCEPT ![i] = "gone"]
  /\ UNCHANGED <<born, closing, pinOK, tries, rejected, gaveUp, nsign>>

ChangePin ==
  /\ pinOK /\ pinOK' = FALSE
  /\ UNCHANGED <<w, born, closing, tries, rejected, gaveUp, nsign>>

\* SIGTERM to every worker: serving ones drain; one that is still opening the token has no handler yet and dies
Close ==
  /\ ~closing /\ closing' = TRUE
  /\ w' = [i \in Ids |-> CASE w[i] = "serving" -> "draining" [] w[i] = "opening" -> "gone" [] OTHER -> w[i]]
  /\ UNCHANGED <<born, pinOK, tries, rejected, gaveUp, nsign>>

Next ==
  \/ Spawn \/ ChangePin \/ Close
  \/ \E i \in Ids : LoginOK(i) \/ LoginBad(i) \/ SignOK(i) \/ SignRefused(i) \/ SignFatal(i) \/ PingFail(i) \/ Kill(i) \/ Exit(i)

\* what the processes do by themselves is fair; the environment (errors, kills, PIN changes, Close) is not
Spec == Init /\ [][Next]_vars /\ WF_vars(Spawn) /\ \A i \in Ids : WF_vars(LoginOK(i)) /\ WF_vars(LoginBad(i)) /\ WF_vars(Exit(i))

-----------------------------------------------------------------------------
TypeOK == w \in [Ids -> States] /\ born \in 0..MaxSpawns /\ tries \in 0..Tries0 /\ nsign \in 0..MaxSigns

\* never more workers opening or serving than wanted
LiveBounded == Cardinality(Live) <= Target

\* workers are born in order, and nothing is born once Close has begun
BornInOrder == \A i \in Ids : (w[i] # "unborn") <=> (i <= born)
NoSpawnWhileClosing == [][closing => born' = born]_vars

\* after Close everything ends: no worker stays serving
CloseDrains == closing => \A i \in Ids : w[i] # "serving"

\* THE FINDING: automatic respawns burn the PIN retry counter
NoLockout == tries > 0
RejectedBounded == rejected <= Target

\* a worker lost to a fatal error or a kill is replaced (while the PIN is right, spawns remain and nobody closes)
Replaced == \A i \in Ids : (w[i] \in {"draining", "gone"} /\ pinOK /\ ~closing /\ born < MaxSpawns) ~> (Cardinality(Live) = Target \/ ~pinOK \/ closing \/ born = MaxSpawns)
AllGoneAfterClose == closing ~> (\A i \in Ids : w[i] \in {"unborn", "gone"})
=============================================================================
