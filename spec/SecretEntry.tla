----------------------------- MODULE SecretEntry -----------------------------
(* How relic obtains and tries a secret (token PIN, key-file passphrase): token/login.go Login with
   lib/passprompt/login.go Login (PKCS#11, scdaemon tokens), and the three passphrase loops of lib/certloader
   (pkcs12.go ParsePKCS12, anyprivkey.go parsePemPrivateKey / parsePgpPrivateKey) that the file token uses.

   A wrong PIN sent to a hardware token counts against its retry counter (three wrong PINs usually lock the user PIN),
   so what matters is that every submission is backed by a freshly obtained secret:

     - a configured PIN is submitted exactly once, nothing is prompted, the keyring is not touched
     - the keyring value is submitted at most once, before any prompt
     - every further submission follows a prompt whose answer it submits; an empty answer or a failing prompt ends the
       operation without a submission (PKCS#12 files may have an empty password: that loop tries "" exactly once)
     - only a secret that just succeeded is written to the keyring
     - the operation reports success iff the last submission succeeded

   One action per step of the loops; Init chooses flow, configuration, the user's answers and the device behaviour,
   after which the system is deterministic (the behaviours are replayed on the real functions with fakes and the
   interaction logs compared record by record). *)
EXTENDS Integers, Sequences, FiniteSets, TLC

CONSTANTS MaxAnswers,  \* the user answers at most this many prompts (then the terminal is at end of input)
          Variant      \* "code" or a named deviation

Flows    == {"token", "p12", "pem", "pgp"}
Answers  == {"right", "wrong1", "wrong2", "empty", "fail"}       \* "fail": the prompt itself returns an error
Secrets  == {"right", "wrong1", "wrong2", "empty"}
Pins     == {"none", "right", "wrong1"}
Keyrings == {"off", "notfound", "right", "wrong1", "broken"}     \* "broken": every keyring call fails
Getters  == {"nil", "present"}
Devices  == {"ok", "fails"}                                       \* "fails": the submission itself errors (device error, damaged file)
Protect  == {"encrypted", "clear", "clear-hdr"}                   \* key files only; "clear-hdr": an unencrypted PEM block that carries
                                                                  \* headers (a comment), which do not make it encrypted

VARIABLES cfg,       \* [flow, pin, keyring, getter, device, protect, answers]
          pc,        \* "start" | "obtain" | "submit" | "store" | "done"
          kfirst,    \* passprompt.Login: keyringFirst
          asked,     \* number of prompts shown
          cur,       \* the secret about to be submitted
          triedEmpty,\* ParsePKCS12
          log,       \* interaction log
          stored,    \* what the keyring holds now ("none" when off/notfound)
          result     \* "pending" | "ok" | "pin-incorrect" | "no-provider" | "aborted" | "error" | "keyring-error"
vars == <<cfg, pc, kfirst, asked, cur, triedEmpty, log, stored, result>>

SeqsUpTo(S, n) == UNION {[1..k -> S] : k \in 0..n}

Cfgs ==
  {c \in [flow: Flows, pin: Pins, keyring: Keyrings, getter: Getters, device: Devices, protect: Protect, answers: SeqsUpTo(Answers, MaxAnswers)] :
     \* irrelevant dimensions are pinned so that each behaviour is generated once
     /\ c.flow # "token" => (c.pin = "none" /\ c.keyring = "off")
     /\ c.flow = "token" => c.protect = "encrypted"
     /\ c.protect = "clear-hdr" => c.flow = "pem"
     /\ c.getter = "nil" => c.answers = <<>>
     /\ c.pin # "none" => (c.answers = <<>> /\ c.keyring = "off")
     \* a damaged OpenPGP key that still decrypts cannot be built with the library at hand: not generated
     /\ (c.flow = "pgp" /\ c.protect = "encrypted") => c.device = "ok"
     /\ c.flow = "p12" => c.protect = "encrypted"}

Rec(op, arg) == [op |-> op, arg |-> arg]
Matches(s) == s = "right"                    \* the device / file accepts exactly the right secret

Init ==
  /\ cfg \in Cfgs
  /\ pc = "start" /\ kfirst = FALSE /\ asked = 0 /\ cur = "none" /\ triedEmpty = FALSE /\ log = <<>>
  /\ stored = (IF cfg.keyring \in {"right", "wrong1"} THEN cfg.keyring ELSE "none")
  /\ result = "pending"

Finish(r) == pc' = "done" /\ result' = r

\* --- entry
Start ==
  /\ pc = "start"
  /\ CASE cfg.flow = "token" /\ cfg.pin # "none" ->
            \* token.Login: a configured PIN is used as is
            /\ cur' = cfg.pin /\ pc' = "submit" /\ log' = Append(log, Rec("cfgpin", cfg.pin))
            /\ UNCHANGED <<kfirst, asked, triedEmpty, stored, result>>
       [] cfg.flow = "token" /\ cfg.pin = "none" ->
            /\ kfirst' = (cfg.keyring # "off") /\ pc' = "obtain"
            /\ UNCHANGED <<asked, cur, triedEmpty, log, stored, result>>
       [] cfg.flow \in {"pem", "pgp"} /\ cfg.protect \in {"clear", "clear-hdr"} ->
            \* nothing to decrypt: parsed directly, the prompt is never consulted
            /\ log' = Append(log, Rec("parse", "clear"))
            /\ IF cfg.device = "fails" THEN Finish("error") ELSE Finish("ok")
            /\ UNCHANGED <<kfirst, asked, cur, triedEmpty, stored>>
       [] cfg.flow \in {"pem", "pgp", "p12"} /\ ~(cfg.flow \in {"pem", "pgp"} /\ cfg.protect \in {"clear", "clear-hdr"}) ->
            /\ IF cfg.getter = "nil" /\ ~(cfg.flow = "p12" /\ Variant = "code")
               THEN \* an encrypted key without any way to ask for the passphrase is an error
                    Finish("no-provider") /\ UNCHANGED <<kfirst, asked, cur, triedEmpty, log, stored>>
               ELSE IF cfg.getter = "nil"
               THEN \* ParsePKCS12 without a prompt: the empty password is tried once
                    /\ cur' = "empty" /\ triedEmpty' = TRUE /\ pc' = "submit"
                    /\ UNCHANGED <<kfirst, asked, log, stored, result>>
               ELSE pc' = "obtain" /\ UNCHANGED <<kfirst, asked, cur, triedEmpty, log, stored, result>>
  /\ UNCHANGED cfg

\* --- obtain the next secret
Answer == IF asked < Len(cfg.answers) THEN cfg.answers[asked + 1] ELSE "empty"   \* end of input reads as an empty answer

Obtain ==
  /\ pc = "obtain"
  /\ IF cfg.flow = "token" /\ kfirst
     THEN \* the keyring is consulted once, before any prompt
          /\ kfirst' = FALSE
          /\ log' = Append(log, Rec("kget", stored))
          /\ CASE cfg.keyring = "broken"   -> Finish("keyring-error") /\ UNCHANGED cur
               [] stored = "none"           -> pc' = "obtain" /\ UNCHANGED <<cur, result>>
               [] OTHER                     -> cur' = stored /\ pc' = "submit" /\ UNCHANGED result
          /\ UNCHANGED <<asked, triedEmpty, stored>>
     ELSE IF cfg.getter = "nil"
     THEN \* (token flow only: key files were dealt with in Start)
          /\ Finish("no-provider") /\ UNCHANGED <<kfirst, asked, cur, triedEmpty, log, stored>>
     ELSE /\ asked' = asked + 1
          /\ log' = Append(log, Rec("ask", IF cfg.flow # "token" \/ ~\E k \in 1..Len(log) : log[k].op = "try" THEN "initial" ELSE "retry"))
          /\ CASE Answer = "fail"  -> Finish("error") /\ UNCHANGED <<cur, triedEmpty>>
               [] Answer = "empty" /\ cfg.flow = "p12" /\ ~triedEmpty ->
                     cur' = "empty" /\ triedEmpty' = TRUE /\ pc' = "submit" /\ UNCHANGED result
               [] Answer = "empty" -> Finish("aborted") /\ UNCHANGED <<cur, triedEmpty>>
               [] OTHER             -> cur' = Answer /\ pc' = "submit" /\ UNCHANGED <<result, triedEmpty>>
          /\ UNCHANGED <<kfirst, stored>>
  /\ UNCHANGED cfg

\* --- submit it: C_Login / scd CHECKPIN / decrypt
Submit ==
  /\ pc = "submit"
  /\ log' = Append(log, Rec("try", cur))
  \* "fails": a token or a structurally damaged PKCS#12 file errors whatever is submitted; a damaged PEM key is
  \* discovered only once it decrypts
  /\ CASE cfg.device = "fails" /\ (cfg.flow \in {"token", "p12"} \/ (cfg.flow = "pem" /\ Matches(cur))) -> Finish("error") /\ UNCHANGED <<stored>>
       [] Matches(cur) /\ cfg.device = "ok" ->
            IF cfg.flow = "token" /\ cfg.pin = "none" /\ cfg.keyring # "off"
            THEN pc' = "store" /\ UNCHANGED <<result, stored>>
            ELSE Finish("ok") /\ UNCHANGED stored
       [] OTHER ->
            \* wrong secret (the OpenPGP loop treats every decryption error as a wrong passphrase)
            IF cfg.flow = "token" /\ cfg.pin # "none" THEN Finish("pin-incorrect") /\ UNCHANGED stored
            ELSE IF cfg.flow = "p12" /\ cfg.getter = "nil" THEN Finish("no-provider") /\ UNCHANGED stored
            ELSE IF Variant = "RetrySameSecret" THEN pc' = "submit" /\ UNCHANGED <<result, stored>>
            ELSE pc' = "obtain" /\ UNCHANGED <<result, stored>>
  /\ UNCHANGED <<cfg, kfirst, asked, cur, triedEmpty>>

Store ==
  /\ pc = "store"
  /\ log' = Append(log, Rec("kset", IF Variant = "StoreTyped" /\ asked > 0 THEN cfg.answers[1] ELSE cur))
  /\ IF cfg.keyring = "broken" THEN Finish("keyring-error") /\ UNCHANGED stored
     ELSE Finish("ok") /\ stored' = (IF Variant = "StoreTyped" /\ asked > 0 THEN cfg.answers[1] ELSE cur)
  /\ UNCHANGED <<cfg, kfirst, asked, cur, triedEmpty>>

Next == Start \/ Obtain \/ Submit \/ Store
Spec == Init /\ [][Next]_vars /\ WF_vars(Next)

-----------------------------------------------------------------------------
Tries == {k \in 1..Len(log) : log[k].op = "try"}

TypeOK ==
  /\ pc \in {"start", "obtain", "submit", "store", "done"} /\ asked \in 0..(MaxAnswers + 4)
  /\ result \in {"pending", "ok", "pin-incorrect", "no-provider", "aborted", "error", "keyring-error"}
  /\ (pc = "done") <=> (result # "pending")

\* every submission is backed by a secret obtained just before it, and submits that secret
NoBlindRetry ==
  \A k \in Tries :
     \/ k > 1 /\ log[k-1].op \in {"cfgpin", "kget"} /\ log[k-1].arg = log[k].arg
     \/ k > 1 /\ log[k-1].op = "ask" /\ cfg.getter = "present"
              /\ LET n == Cardinality({m \in 1..(k-1) : log[m].op = "ask"}) IN n <= Len(cfg.answers) /\ log[k].arg = cfg.answers[n]
     \/ k > 1 /\ log[k-1].op = "ask" /\ log[k].arg = "empty" /\ cfg.flow = "p12"     \* end of input read as the empty password
     \/ k = 1 /\ cfg.flow = "p12" /\ cfg.getter = "nil" /\ log[k].arg = "empty"

\* a configured PIN: one submission, no prompt, no keyring
ConfiguredPinOnce ==
  (cfg.flow = "token" /\ cfg.pin # "none" /\ pc = "done") =>
     /\ Cardinality(Tries) = 1
     /\ \A k \in 1..Len(log) : log[k].op \in {"cfgpin", "try"}

\* the keyring is read at most once, before any prompt, and written only with the secret that just succeeded
KeyringDiscipline ==
  /\ Cardinality({k \in 1..Len(log) : log[k].op = "kget"}) <= 1
  /\ \A k \in 1..Len(log) : log[k].op = "kget" => \A m \in 1..(k-1) : log[m].op # "ask"
  /\ \A k \in 1..Len(log) : log[k].op = "kset" => (k > 1 /\ log[k-1].op = "try" /\ log[k-1].arg = log[k].arg /\ Matches(log[k].arg) /\ cfg.keyring # "off")
  /\ stored \in {"none", "right", "wrong1"} /\ (stored # (IF cfg.keyring \in {"right", "wrong1"} THEN cfg.keyring ELSE "none") => stored = "right")

\* an empty answer is never submitted, except the one empty PKCS#12 password
EmptyNeverSubmitted ==
  LET E == {k \in Tries : log[k].arg = "empty"} IN
    IF cfg.flow = "p12" THEN Cardinality(E) <= 1 ELSE E = {}

\* no more submissions than secrets obtained, hence at most 1 (configured) / 1 + prompts answered
SubmissionsBounded == Cardinality(Tries) <= 1 + Len(cfg.answers) + (IF cfg.flow = "p12" THEN 1 ELSE 0)

\* success is reported iff the last submission succeeded (and, with a keyring, the store went through)
Honest ==
  pc = "done" =>
    /\ result = "ok" =>
         \/ (Tries # {} /\ LET k == CHOOSE k \in Tries : \A m \in Tries : m <= k IN Matches(log[k].arg) /\ cfg.device = "ok")
         \/ (cfg.protect \in {"clear", "clear-hdr"} /\ cfg.flow \in {"pem", "pgp"} /\ cfg.device = "ok")
    /\ (\E k \in Tries : Matches(log[k].arg) /\ cfg.device = "ok") => result \in {"ok", "keyring-error"}

\* a key that is not encrypted never causes a prompt
ClearKeyNeverPrompts == (cfg.flow \in {"pem", "pgp"} /\ cfg.protect \in {"clear", "clear-hdr"}) => asked = 0

Terminates == <>(pc = "done")
=============================================================================
