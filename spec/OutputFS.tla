------------------------------ MODULE OutputFS ------------------------------
(***************************************************************************)
(* The output phase of relic at system-call grain: lib/atomicfile (New,    *)
(* Commit, Close, WriteAny, WriteInPlace), binpatch.applyRewrite, the MSI  *)
(* copy-then-edit transformer and the PGP merge all reduce to              *)
(*   create temp (O_EXCL) ; (write | pwrite | truncate)* ; chmod ; close ; *)
(*   rename temp -> dest        (error path: close ; unlink temp)          *)
(* over a small file-system state.  A crash may happen between any two     *)
(* system calls, so the atomicity invariants are STATE invariants: they    *)
(* hold at every crash point iff they hold in every reachable state.       *)
(*                                                                         *)
(* The file-system layer (Fs* operators) is total: any call has a defined  *)
(* effect, so traces of code that does something else (unlink dest, write  *)
(* straight to dest) are still behaviours of the FS layer and it is the    *)
(* invariants that reject them.                                            *)
(***************************************************************************)
EXTENDS Integers, Sequences, FiniteSets, TLC

CONSTANTS DestExisted,   \* BOOLEAN: was there a file at the destination before
          MaxWrites,     \* bound on data-modifying calls in the protocol spec
          Variant        \* "code" (rename over dest) | "UnlinkThenRename" | "WriteToDest" | "LeakTemp" | "RenameEarly"

NoIno == 0
OldIno == 1      \* the file at dest before we started (if DestExisted)
InIno == 2       \* the input file
Fresh == 3..6    \* inodes created during the run
Paths == {"dest", "input", "tmp1", "tmp2"}
TmpPaths == {"tmp1", "tmp2"}

VARIABLES bind,         \* Path -> inode or NoIno
          mods,         \* inode -> number of content modifications since start
          published,    \* set of inodes that have ever been bound to "dest" during the run
          modAfterPub,  \* set of inodes modified while published
          nextIno,
          pc,           \* protocol state
          nw,           \* writes issued by the protocol
          crashed

fsvars == <<bind, mods, published, modAfterPub, nextIno>>
vars == <<bind, mods, published, modAfterPub, nextIno, pc, nw, crashed>>

-----------------------------------------------------------------------------
(* file-system layer *)

InitBind(de) == [p \in Paths |-> IF p = "dest" THEN (IF de THEN OldIno ELSE NoIno)
                                 ELSE IF p = "input" THEN InIno ELSE NoIno]
InitMods == [i \in 0..6 |-> 0]

FsInit ==
  /\ bind = InitBind(DestExisted)
  /\ mods = InitMods
  /\ published = {}
  /\ modAfterPub = {}
  /\ nextIno = 3

Touch(i) ==   \* a content modification of inode i
  /\ mods' = [mods EXCEPT ![i] = IF @ < 3 THEN @ + 1 ELSE @]
  /\ modAfterPub' = IF i \in published \/ (i = OldIno) THEN modAfterPub \cup {i} ELSE modAfterPub

\* open(p, O_CREAT [|O_EXCL] [|O_TRUNC])
FsCreate(p, excl, trunc) ==
  IF bind[p] = NoIno
    THEN /\ nextIno \in Fresh
         /\ bind' = [bind EXCEPT ![p] = nextIno]
         /\ nextIno' = nextIno + 1
         /\ published' = IF p = "dest" THEN published \cup {nextIno} ELSE published
         /\ UNCHANGED <<mods, modAfterPub>>
    ELSE IF excl THEN UNCHANGED fsvars             \* EEXIST
    ELSE IF trunc THEN Touch(bind[p]) /\ UNCHANGED <<bind, nextIno, published>>
    ELSE UNCHANGED fsvars

\* write / pwrite / ftruncate / copy_file_range ... on the inode currently named p
FsModify(p) ==
  IF bind[p] = NoIno THEN UNCHANGED fsvars
  ELSE Touch(bind[p]) /\ UNCHANGED <<bind, nextIno, published>>

FsRename(a, b) ==
  IF bind[a] = NoIno THEN UNCHANGED fsvars
  ELSE /\ bind' = [bind EXCEPT ![b] = bind[a], ![a] = NoIno]
       /\ published' = IF b = "dest" THEN published \cup {bind[a]} ELSE published
       /\ UNCHANGED <<mods, modAfterPub, nextIno>>

FsLink(a, b) ==
  IF bind[a] = NoIno \/ bind[b] # NoIno THEN UNCHANGED fsvars
  ELSE /\ bind' = [bind EXCEPT ![b] = bind[a]]
       /\ published' = IF b = "dest" THEN published \cup {bind[a]} ELSE published
       /\ UNCHANGED <<mods, modAfterPub, nextIno>>

FsUnlink(p) ==
  /\ bind' = [bind EXCEPT ![p] = NoIno]
  /\ UNCHANGED <<mods, published, modAfterPub, nextIno>>

FsNop == UNCHANGED fsvars    \* fchmod, close, reads: no effect on what a crash leaves behind

-----------------------------------------------------------------------------
(* the protocol relic follows (one action per system call) *)

Init == FsInit /\ pc = "start" /\ nw = 0 /\ crashed = FALSE

Alive == ~crashed

CreateTmp ==
  /\ Alive /\ pc = "start"
  /\ IF Variant = "WriteToDest" THEN FsCreate("dest", FALSE, TRUE) ELSE FsCreate("tmp1", TRUE, FALSE)
  /\ pc' = "open" /\ UNCHANGED <<nw, crashed>>

WriteTmp ==    \* write, pwrite, ftruncate – any data-modifying call on the temp file
  /\ Alive /\ pc = "open" /\ nw < MaxWrites
  /\ FsModify(IF Variant = "WriteToDest" THEN "dest" ELSE "tmp1")
  /\ nw' = nw + 1 /\ UNCHANGED <<pc, crashed>>

RenameEarly ==  \* negative control: commit before the last write
  /\ Variant = "RenameEarly" /\ Alive /\ pc = "open" /\ bind["tmp1"] # NoIno
  /\ FsRename("tmp1", "dest")
  /\ UNCHANGED <<pc, nw, crashed>>

Chmod == /\ Alive /\ pc = "open" /\ FsNop /\ pc' = "chmodded" /\ UNCHANGED <<nw, crashed>>

CloseTmp == /\ Alive /\ pc = "chmodded" /\ FsNop /\ pc' = "closed" /\ UNCHANGED <<nw, crashed>>

UnlinkDest ==   \* what the tree did before the repair: os.Remove(dest) before the rename
  /\ Variant = "UnlinkThenRename" /\ Alive /\ pc = "closed"
  /\ FsUnlink("dest") /\ pc' = "unlinkedDest" /\ UNCHANGED <<nw, crashed>>

Rename ==
  /\ Alive
  /\ pc = IF Variant = "UnlinkThenRename" THEN "unlinkedDest" ELSE "closed"
  /\ IF Variant \in {"WriteToDest", "RenameEarly"} THEN FsNop ELSE FsRename("tmp1", "dest")
  /\ pc' = "done" /\ UNCHANGED <<nw, crashed>>

\* handled error at any point while the temp file is open: Close() = close + unlink temp
ErrorPath ==
  /\ Alive /\ pc \in {"open", "chmodded"}
  /\ IF Variant = "LeakTemp" THEN FsNop ELSE FsUnlink("tmp1")
  /\ pc' = "failed" /\ UNCHANGED <<nw, crashed>>

Crash == /\ Alive /\ pc \notin {"done", "failed"} /\ crashed' = TRUE /\ UNCHANGED <<fsvars, pc, nw>>

Next == CreateTmp \/ WriteTmp \/ RenameEarly \/ Chmod \/ CloseTmp \/ UnlinkDest \/ Rename \/ ErrorPath \/ Crash

Spec == Init /\ [][Next]_vars

-----------------------------------------------------------------------------
(* properties — state invariants, so they hold at every crash point *)

TypeOK ==
  /\ bind \in [Paths -> 0..6]
  /\ pc \in {"start", "open", "chmodded", "closed", "unlinkedDest", "done", "failed"}

\* dest holds its complete previous content or a complete new file, never nothing where a
\* file existed.  "complete new" = an inode that is never modified once bound to dest
\* (the conformance harness checks the final bytes, so unmodified-since-publication = complete).
DestAtomicP(de) ==
  LET d == bind["dest"]
  IN /\ de => d # NoIno
     /\ d = OldIno => OldIno \notin modAfterPub
     /\ d \in Fresh => d \notin modAfterPub

DestAtomic == DestAtomicP(DestExisted)

InputIntact == bind["input"] = InIno /\ mods[InIno] = 0

NoTempAtExit == pc \in {"done", "failed"} => \A t \in TmpPaths : bind[t] = NoIno

\* on success the destination is the new file
DoneMeansNew == pc = "done" => bind["dest"] \in Fresh

=============================================================================
