----------------------------- MODULE ScdSession -----------------------------
(* relic's scdaemon token (token/scdtoken over lib/assuan): one session with a smart-card daemon, line by line.

     Open      Dial (greeting), LEARN, serial check, token.Login with CHECKPIN as the login function
     GetKey    key selection by configured id, READKEY
     Sign      SETDATA <digest>, PKSIGN, the card may ask for the PIN again (INQUIRE NEEDPIN)

   The daemon side is scripted by knobs chosen in Init (what the card answers at each point); the client side follows
   lib/assuan/assuan.go Transact/read, lib/assuan/scd.go Learn/CheckPin/Public/Sign and token/scdtoken/scdtoken.go
   Open/login/GetKey/Sign step by step. `tr` is the transcript: every line either side sends, abstracted to
   [who, line, arg]. The behaviours are replayed against a harness-owned scdaemon fake speaking the real protocol over a
   Unix socket; the transcript the fake records and the outcome of every API call must equal the specification's.

   The concurrent view of Sign (SETDATA and PKSIGN are two transactions which the token lock makes one step for other
   signers) is module ScdPair. *)
EXTENDS ScdProto, TLC

CONSTANTS MaxAnswers, MaxSigns,
          Variant       \* "code" or a named deviation

Greetings == {"ok", "err"}
Learns    == {"ok", "inquire", "nokeys", "err"}
SerialCfg == {"unset", "match", "mismatch"}
Pins      == {"none", "right", "wrong1"}
Answers   == {"right", "wrong1", "empty"}
Getters   == {"nil", "present"}
PinInq    == {"needpin", "other"}
KeyIdCfg  == {"unset", "match", "nomatch"}
ReadKeys  == {"rsa", "ecc", "garbage", "truncated", "err"}    \* "truncated": the key s-expression cut short (at every offset, harness side)
SignKinds == {"ok", "needpin", "needpin-badpin", "err", "other-inquiry"}
Tries0    == {1, 3}

SeqsUpTo(A, n) == UNION {[1..m -> A] : m \in 0..n}

VARIABLES k,        \* knobs
          pc,       \* client program counter
          tr,       \* transcript
          asked,    \* prompts shown
          cur,      \* secret about to be submitted
          pin,      \* tok.pin: the PIN that unlocked the card
          tries,    \* card: remaining PIN tries
          verified, \* card: PIN verified in this session
          nsign,    \* Sign calls completed
          out       \* outcomes of the API calls so far: sequence of [call, result]
vars == <<k, pc, tr, asked, cur, pin, tries, verified, nsign, out>>

Knobs ==
  {c \in [greeting: Greetings, learn: Learns, serial: SerialCfg, pin: Pins, getter: Getters, answers: SeqsUpTo(Answers, MaxAnswers),
          pininq: PinInq, tries0: Tries0, keyid: KeyIdCfg, readkey: ReadKeys, signs: SeqsUpTo(SignKinds, MaxSigns)] :
     \* pin irrelevant dimensions so that each behaviour is generated once
     /\ c.getter = "nil" => c.answers = <<>>
     /\ c.pin # "none" => (c.answers = <<>> /\ c.getter = "nil")
     /\ c.greeting = "err" => (c.learn = "ok" /\ c.serial = "unset" /\ c.pin = "right" /\ c.pininq = "needpin" /\ c.tries0 = 3)
     /\ c.learn \in {"nokeys", "err"} => (c.serial = "unset" /\ c.pin = "right" /\ c.pininq = "needpin" /\ c.tries0 = 3)
     /\ c.serial = "mismatch" => (c.pin = "right" /\ c.pininq = "needpin" /\ c.tries0 = 3)
     /\ (c.greeting = "err" \/ c.learn \in {"nokeys", "err"} \/ c.serial = "mismatch") => (c.keyid = "unset" /\ c.readkey = "rsa" /\ c.signs = <<>>)
     /\ c.keyid = "nomatch" => (c.readkey = "rsa" /\ c.signs = <<>>)
     /\ c.readkey # "rsa" => c.signs = <<>>}

Out(call, r) == [call |-> call, result |-> r]
Dn(n) == CASE n = 1 -> "d1" [] n = 2 -> "d2" [] OTHER -> "d3"

Init ==
  /\ k \in Knobs
  /\ pc = "dial" /\ tr = <<>> /\ asked = 0 /\ cur = "none" /\ pin = "none"
  /\ tries = k.tries0 /\ verified = FALSE /\ nsign = 0 /\ out = <<>>

Fail(call, r) == out' = Append(out, Out(call, r)) /\ pc' = "closed"

\* --- Open
Dial ==
  /\ pc = "dial"
  /\ IF k.greeting = "ok"
     THEN tr' = Append(tr, S("OK", "greeting")) /\ pc' = "learn" /\ UNCHANGED out
     ELSE tr' = Append(tr, S("ERR", "greeting")) /\ Fail("open", "connect-failed")
  /\ UNCHANGED <<k, asked, cur, pin, tries, verified, nsign>>

Learn ==
  /\ pc = "learn"
  /\ LET pre == Append(tr, C("LEARN", ""))
         inq == IF k.learn = "inquire" THEN <<S("INQUIRE", "KNOWNCARDP"), C("END", "")>> ELSE <<>>   \* answered with empty data
     IN CASE k.learn \in {"ok", "inquire"} ->
               /\ tr' = pre \o inq \o <<S("S", "SERIALNO"), S("S", "KEYPAIRINFO"), S("S", "KEY-FPR"), S("OK", "")>>
               /\ IF k.serial = "mismatch" THEN Fail("open", "serial-mismatch") ELSE pc' = "login" /\ UNCHANGED out
          [] k.learn = "nokeys" ->
               /\ tr' = pre \o <<S("S", "SERIALNO"), S("OK", "")>> /\ Fail("open", "no-keys")
          [] OTHER ->
               /\ tr' = pre \o <<S("ERR", "card-removed")>> /\ Fail("open", "learn-failed")
  /\ UNCHANGED <<k, asked, cur, pin, tries, verified, nsign>>

\* token.Login: configured PIN, else the prompt loop (no keyring in this module: SecretEntry covers it)
Answer == IF asked < Len(k.answers) THEN k.answers[asked + 1] ELSE "empty"

Login ==
  /\ pc = "login"
  /\ CASE k.pin # "none" -> cur' = k.pin /\ pc' = "checkpin" /\ UNCHANGED <<asked, out>>
       [] k.getter = "nil" -> Fail("open", "no-provider") /\ UNCHANGED <<asked, cur>>
       [] Answer = "empty" -> asked' = asked + 1 /\ Fail("open", "aborted") /\ UNCHANGED cur
       [] OTHER -> asked' = asked + 1 /\ cur' = Answer /\ pc' = "checkpin" /\ UNCHANGED out
  /\ UNCHANGED <<k, tr, pin, tries, verified, nsign>>

\* CheckPin: one transaction; the card asks for the PIN by inquiry
CheckPin ==
  /\ pc = "checkpin"
  /\ LET pre == Append(tr, C("CHECKPIN", "serial")) IN
     IF k.pininq = "other"
     THEN \* an inquiry relic does not know is cancelled, never answered with the PIN
          /\ tr' = pre \o <<S("INQUIRE", "OTHER"),
                            IF Variant = "PinOnAnyInquiry" THEN C("D", cur) ELSE C("CANCEL", ""),
                            S("ERR", "canceled")>>
          /\ Fail("open", "checkpin-failed") /\ UNCHANGED <<pin, tries, verified>>
     ELSE LET sent == pre \o <<S("INQUIRE", "NEEDPIN"), C("D", cur), C("END", "")>> IN
          IF tries = 0
          THEN tr' = Append(sent, S("ERR", "pin-blocked")) /\ Fail("open", "checkpin-failed") /\ UNCHANGED <<pin, tries, verified>>
          ELSE IF cur = "right"
          THEN /\ tr' = Append(sent, S("OK", "")) /\ pin' = cur /\ verified' = TRUE /\ tries' = k.tries0
               /\ out' = Append(out, Out("open", "ok")) /\ pc' = "getkey"
          ELSE /\ tr' = Append(sent, S("ERR", "bad-pin")) /\ tries' = tries - 1 /\ UNCHANGED <<pin, verified>>
               /\ IF k.pin # "none" THEN Fail("open", "pin-incorrect")
                  ELSE IF Variant = "RetrySamePin" THEN pc' = "checkpin" /\ UNCHANGED out
                  ELSE pc' = "login" /\ UNCHANGED out
  /\ UNCHANGED <<k, asked, cur, nsign>>

\* --- GetKey
GetKey ==
  /\ pc = "getkey"
  /\ IF k.keyid = "nomatch"
     THEN \* no key of the card has the configured id: an error, nothing is sent
          out' = Append(out, Out("getkey", "not-found")) /\ pc' = "done" /\ UNCHANGED tr
     ELSE LET pre == Append(tr, C("READKEY", "OPENPGP.1")) IN
          CASE k.readkey = "err" -> tr' = Append(pre, S("ERR", "no-key")) /\ out' = Append(out, Out("getkey", "readkey-failed")) /\ pc' = "done"
            [] k.readkey = "rsa" -> tr' = pre \o <<S("D", "pubkey-rsa"), S("OK", "")>> /\ out' = Append(out, Out("getkey", "ok")) /\ pc' = "sign"
            [] k.readkey = "ecc" -> tr' = pre \o <<S("D", "pubkey-ecc"), S("OK", "")>> /\ out' = Append(out, Out("getkey", "unsupported")) /\ pc' = "done"
            [] k.readkey = "truncated" -> tr' = pre \o <<S("D", "pubkey-truncated"), S("OK", "")>> /\ out' = Append(out, Out("getkey", "invalid-key")) /\ pc' = "done"
            [] OTHER -> tr' = pre \o <<S("D", "pubkey-garbage"), S("OK", "")>> /\ out' = Append(out, Out("getkey", "invalid-key")) /\ pc' = "done"
  /\ UNCHANGED <<k, asked, cur, pin, tries, verified, nsign>>

\* --- Sign: SETDATA then PKSIGN (two transactions under the token lock)
Sign ==
  /\ pc = "sign"
  /\ IF nsign >= Len(k.signs) THEN pc' = "done" /\ UNCHANGED <<tr, out, nsign, tries, verified>>
     ELSE LET kind == k.signs[nsign + 1]
              d == Dn(nsign + 1)                 \* the digest of this call
              pre == tr \o <<C("SETDATA", d), S("OK", ""), C("PKSIGN", "OPENPGP.1")>>
          IN /\ nsign' = nsign + 1 /\ pc' = "sign"
             /\ CASE kind = "ok" ->
                       tr' = pre \o <<S("D", d), S("OK", "")>> /\ out' = Append(out, Out("sign", "ok")) /\ UNCHANGED <<tries, verified>>
                  [] kind = "needpin" ->
                       \* the card wants the PIN again: the one that opened the session is sent
                       tr' = pre \o <<S("INQUIRE", "NEEDPIN"), C("D", pin), C("END", ""), S("D", d), S("OK", "")>>
                       /\ out' = Append(out, Out("sign", "ok")) /\ UNCHANGED <<tries, verified>>
                  [] kind = "needpin-badpin" ->
                       \* ... and the card rejects it (PIN changed behind relic's back)
                       tr' = pre \o <<S("INQUIRE", "NEEDPIN"), C("D", pin), C("END", ""), S("ERR", "bad-pin")>>
                       /\ out' = Append(out, Out("sign", "pin-incorrect")) /\ tries' = (IF tries > 0 THEN tries - 1 ELSE 0) /\ UNCHANGED verified
                  [] kind = "err" ->
                       tr' = Append(pre, S("ERR", "card-error")) /\ out' = Append(out, Out("sign", "sign-failed")) /\ UNCHANGED <<tries, verified>>
                  [] OTHER ->
                       tr' = pre \o <<S("INQUIRE", "OTHER"), IF Variant = "PinOnAnyInquiry" THEN C("D", pin) ELSE C("CANCEL", ""), S("ERR", "canceled")>>
                       /\ out' = Append(out, Out("sign", "sign-failed")) /\ UNCHANGED <<tries, verified>>
  /\ UNCHANGED <<k, asked, cur, pin>>

Next == Dial \/ Learn \/ Login \/ CheckPin \/ GetKey \/ Sign
Spec == Init /\ [][Next]_vars /\ WF_vars(Next)

-----------------------------------------------------------------------------
TypeOK == pc \in {"dial", "learn", "login", "checkpin", "getkey", "sign", "done", "closed"} /\ tries \in 0..3 /\ nsign \in 0..MaxSigns

PinOnlyOnNeedpin == PinOnlyOnNeedpinOn(tr)
OneCommandAtATime == OneCommandAtATimeOn(tr)
AnswersOnlyInquiries == AnswersOnlyInquiriesOn(tr)
NoSignBeforeLogin == NoSignBeforeLoginOn(tr)
SetdataThenPksign == SetdataThenPksignOn(tr)
BlockedNotHammered == BlockedNotHammeredOn(tr)
SignHonest == SignHonestOn(tr)

\* PINs sent for login are backed by secrets obtained: the configured one once, or one per answered prompt
LoginSubmissionsBacked == LoginPinsSent(tr) <= (IF k.pin # "none" THEN 1 ELSE asked)

\* a failed Open leaves nothing half-open, and only a successful Open is followed by GetKey / Sign
OpenFirst ==
  /\ (Len(out) > 0 => out[1].call = "open")
  /\ \A i \in 2..Len(out) : out[1].result = "ok" /\ out[i].call # "open"

Terminates == <>(pc \in {"done", "closed"})
=============================================================================
