------------------------------ MODULE P11Proto ------------------------------
(* The Cryptoki call transcript vocabulary ([fn, arg, rv] records, one per call, as the token model behind the wire
   module records them) and the PKCS#11 discipline predicates over a single-session transcript t. All predicates are
   prefix-safe (they hold of every prefix of a good transcript), so the trace specification evaluates them after every
   recorded call. *)
EXTENDS Integers, Sequences, FiniteSets

Ev(fn, arg, rv) == [fn |-> fn, arg |-> arg, rv |-> rv]

\* a sign operation is active at position i: a successful C_SignInit before i with no C_Sign since
ActiveSign(t, i) == \E j \in 1..(i-1) : t[j].fn = "SignInit" /\ t[j].rv = "OK" /\ \A m \in (j+1)..(i-1) : t[m].fn # "Sign"
\* a find operation is active at position i
ActiveFind(t, i) == \E j \in 1..(i-1) : t[j].fn = "FindObjectsInit" /\ t[j].rv = "OK" /\ \A m \in (j+1)..(i-1) : t[m].fn # "FindObjectsFinal"
\* the session is open at position i
SessionOpen(t, i) == \E j \in 1..(i-1) : t[j].fn = "OpenSession" /\ t[j].rv = "OK" /\ \A m \in (j+1)..(i-1) : ~(t[m].fn = "CloseSession" /\ t[m].rv = "OK")

SessionCalls == {"GetSessionInfo", "Login", "Logout", "FindObjectsInit", "FindObjects", "FindObjectsFinal", "GetAttributeValue", "SignInit", "Sign",
                 "CreateObject", "DestroyObject", "GenerateKeyPair"}

\* one active operation of a kind per session: no Init while the same kind is active
OneOperationAtATimeOn(t) ==
  \A i \in 1..Len(t) :
     /\ t[i].fn = "SignInit" => ~ActiveSign(t, i)
     /\ t[i].fn = "FindObjectsInit" => ~ActiveFind(t, i)

\* C_Sign directly follows its own successful C_SignInit
SignOnlyAfterInitOn(t) == \A i \in 1..Len(t) : t[i].fn = "Sign" => (i > 1 /\ t[i-1].fn = "SignInit" /\ t[i-1].rv = "OK")

\* C_FindObjects / C_FindObjectsFinal only inside a search; a session is not closed with a search still open
FindBracketedOn(t) ==
  \A i \in 1..Len(t) :
     /\ t[i].fn \in {"FindObjects", "FindObjectsFinal"} => ActiveFind(t, i)
     /\ (t[i].fn = "CloseSession" /\ t[i].rv = "OK") => ~ActiveFind(t, i)

\* session calls only on an open session (Open's failure paths close a session that never existed: recorded, tolerated)
NoUseAfterCloseOn(t) == \A i \in 1..Len(t) : t[i].fn \in SessionCalls => SessionOpen(t, i)

\* at the end: every session opened was closed
SessionsClosedOn(t) ==
  Cardinality({i \in 1..Len(t) : t[i].fn = "OpenSession" /\ t[i].rv = "OK"}) = Cardinality({i \in 1..Len(t) : t[i].fn = "CloseSession" /\ t[i].rv = "OK"})
=============================================================================
