// Reference XML tooling from the JDK for C19: the exclusive canonicaliser (W3C xml-exc-c14n, comments omitted) and the
// XML-DSig validator. Reads requests from stdin, one per line, answers one line each.
//   c14n <id> <path> <base64 xml>       path = element-child indexes from the document element, e.g. "" or "0/1"
//   validate <id> <n> <base64 xml>      validates the n-th ds:Signature (document order) using its KeyValue / X509 certificate
import java.io.*;
import java.lang.reflect.Method;
import java.security.Key;
import java.security.PublicKey;
import java.security.cert.X509Certificate;
import java.util.Base64;
import javax.xml.crypto.*;
import javax.xml.crypto.dsig.*;
import javax.xml.crypto.dsig.dom.DOMValidateContext;
import javax.xml.crypto.dsig.keyinfo.*;
import javax.xml.parsers.DocumentBuilder;
import javax.xml.parsers.DocumentBuilderFactory;
import org.w3c.dom.*;

public class XmlRef {
    static Node childElement(Node n, int idx) {
        int k = 0;
        for (Node c = n.getFirstChild(); c != null; c = c.getNextSibling()) {
            if (c.getNodeType() == Node.ELEMENT_NODE) {
                if (k == idx) return c;
                k++;
            }
        }
        return null;
    }

    static class AnyKeySelector extends KeySelector {
        PublicKey fallback;
        AnyKeySelector(PublicKey fb) { fallback = fb; }
        public KeySelectorResult select(KeyInfo ki, Purpose p, AlgorithmMethod m, XMLCryptoContext c) throws KeySelectorException {
            if (ki == null) throw new KeySelectorException("no KeyInfo");
            PublicKey found = null;
            for (Object o : ki.getContent()) {
                try {
                    if (o instanceof KeyValue) {
                        try { found = ((KeyValue) o).getPublicKey(); } catch (Exception e) { /* e.g. RFC 4050 ECDSAKeyValue: not understood by the JDK */ }
                        if (found != null) break;
                    }
                    if (o instanceof X509Data) {
                        for (Object x : ((X509Data) o).getContent()) {
                            if (x instanceof X509Certificate && found == null) found = ((X509Certificate) x).getPublicKey();
                        }
                    }
                } catch (Exception e) { throw new KeySelectorException(e); }
            }
            if (found == null) found = fallback;
            if (found == null) throw new KeySelectorException("no key");
            final PublicKey k = found;
            return new KeySelectorResult() { public Key getKey() { return k; } };
        }
    }

    public static void main(String[] a) throws Exception {
        com.sun.org.apache.xml.internal.security.Init.init();
        Class<?> cc = Class.forName("com.sun.org.apache.xml.internal.security.c14n.Canonicalizer");
        Object canon = cc.getMethod("getInstance", String.class).invoke(null, "http://www.w3.org/2001/10/xml-exc-c14n#");
        Method sub2 = null, sub1 = null;
        for (Method m : cc.getMethods()) {
            if (m.getName().equals("canonicalizeSubtree")) {
                Class<?>[] p = m.getParameterTypes();
                if (p.length == 2 && p[0] == Node.class && p[1] == OutputStream.class) sub2 = m;
                if (p.length == 1 && p[0] == Node.class) sub1 = m;
            }
        }
        DocumentBuilderFactory dbf = DocumentBuilderFactory.newInstance();
        dbf.setNamespaceAware(true);
        XMLSignatureFactory fac = XMLSignatureFactory.getInstance("DOM");
        BufferedReader in = new BufferedReader(new InputStreamReader(System.in));
        PrintStream out = new PrintStream(new BufferedOutputStream(System.out), false, "UTF-8");
        String line;
        while ((line = in.readLine()) != null) {
            String[] f = line.split(" ", -1);
            String id = f.length > 1 ? f[1] : "?";
            try {
                if (f[0].equals("c14n")) {
                    DocumentBuilder db = dbf.newDocumentBuilder();
                    Document d = db.parse(new ByteArrayInputStream(Base64.getDecoder().decode(f[3])));
                    Node n = d.getDocumentElement();
                    if (!f[2].isEmpty()) for (String s : f[2].split("/")) n = childElement(n, Integer.parseInt(s));
                    byte[] res;
                    if (sub2 != null) {
                        ByteArrayOutputStream bo = new ByteArrayOutputStream();
                        sub2.invoke(canon, n, bo);
                        res = bo.toByteArray();
                    } else {
                        res = (byte[]) sub1.invoke(canon, n);
                    }
                    out.println(id + " OK " + Base64.getEncoder().encodeToString(res));
                } else if (f[0].equals("validate")) {
                    DocumentBuilder db = dbf.newDocumentBuilder();
                    Document d = db.parse(new ByteArrayInputStream(Base64.getDecoder().decode(f[3])));
                    NodeList nl = d.getElementsByTagNameNS(XMLSignature.XMLNS, "Signature");
                    int which = Integer.parseInt(f[2]);
                    if (nl.getLength() <= which) { out.println(id + " ERR signatures=" + nl.getLength()); out.flush(); continue; }
                    // Id attributes referenced by same-document URIs
                    NodeList all = d.getElementsByTagName("*");
                    for (int i = 0; i < all.getLength(); i++) {
                        Element e = (Element) all.item(i);
                        if (e.hasAttribute("Id")) e.setIdAttribute("Id", true);
                    }
                    PublicKey fb = null;
                    if (f.length > 4 && !f[4].isEmpty()) {
                        byte[] spki = Base64.getDecoder().decode(f[4]);
                        for (String alg : new String[]{"RSA", "EC"}) {
                            try { fb = java.security.KeyFactory.getInstance(alg).generatePublic(new java.security.spec.X509EncodedKeySpec(spki)); break; } catch (Exception e) { }
                        }
                    }
                    DOMValidateContext ctx = new DOMValidateContext(new AnyKeySelector(fb), nl.item(which));
                    ctx.setProperty("org.jcp.xml.dsig.secureValidation", Boolean.FALSE);
                    XMLSignature sig = fac.unmarshalXMLSignature(ctx);
                    boolean ok = sig.validate(ctx);
                    StringBuilder sb = new StringBuilder();
                    sb.append("sv=").append(sig.getSignatureValue().validate(ctx));
                    int i = 0;
                    for (Object r : sig.getSignedInfo().getReferences()) sb.append(" ref").append(i++).append("=").append(((Reference) r).validate(ctx));
                    out.println(id + (ok ? " VALID " : " INVALID ") + sb);
                } else {
                    out.println(id + " ERR unknown request");
                }
            } catch (Throwable t) {
                Throwable c = t;
                while (c.getCause() != null) c = c.getCause();
                out.println(id + " ERR " + String.valueOf(c).replace('\n', ' '));
            }
            out.flush();
        }
    }
}
