"""X06 (extension, outside the twenty listed properties) - what relic puts into the X.509 objects it issues.
TLC: spec/CertIssue.tla, the decision table of lib/x509tools/x509cmd.go behind x509-request, x509-self-sign and x509-sign
(--copy-extensions, --cross-sign): modes x flags (commonName, alternate-dns, key-usage, cert-authority, serial,
copy-extensions, rsa-pss) x content of the submitted request or certificate (alternative names, basicConstraints, keyUsage,
extKeyUsage, an unknown extension critical or not, a subjectKeyIdentifier of the requester's choosing, signature valid or
not, PEM / DER / garbage) x issuer (key type, with or without subjectKeyIdentifier). Invariants ProofOfPossession,
BadInputRefused, KeyBinding, RequestDecidesNothing, CaOnlyOnAuthority, FlagsWin, CrossKeepsCA, CrossKeepsContent,
SigAlgRight; liveness Terminates; 6 negative controls; 2 invariants that must FAIL for the code as it is (open findings).
Binding (A): every behaviour on the real MakeRequest / MakeCertificate / SignCSR / CrossSign with a counting signer as the
issuing key; the issued object is parsed and projected onto the specification's record (subject, key, names, CA flag, key
usages, unknown extension, key identifiers, serial, signature algorithm), its signature verified under the issuing key,
validity and issuer name checked; a refusal must come before the issuing key signs anything."""
import json, os, concurrent.futures as cf
from vlib.common import *
from checks.C15 import _absorb

NEG = [("CrossDropsCA", "CrossKeepsCA"), ("CopyAlways", "RequestDecidesNothing"), ("SkipPop", "ProofOfPossession"), ("WeakAlgTolerated", "ProofOfPossession"), ("KeepRequestedSki", "KeyBinding"),
       ("CsrCaWithoutCopy", ("RequestDecidesNothing", "CaOnlyOnAuthority")), ("FlagsIgnoredOnCopy", "FlagsWin")]
FINDINGS = [("CertIssue_Finding_Unknown.cfg", "UnknownSurvivesCross"), ("CertIssue_Finding_Aki.cfg", "AkiNeverStale")]


def run(t):
    run = Run("X06", "model_checking", t)
    vh = build_vh()
    r = run_tlc("CertIssue_MC", "CertIssue_MC.cfg", timeout=1200, want_beh=False, heap="16g")
    tlc_must_pass(r, "CertIssue_MC")
    run.add_tlc(r, "CertIssue mc (4 modes x flags x input content x issuer, sampled where dimensions do not interact; liveness Terminates)")
    negs = NEG if t == "thorough" else random.Random(seed()).sample(NEG, 3)
    for v, inv in negs:
        tlc_must_fail(run_tlc("CertIssue_MC", f"CertIssue_Neg_{v}.cfg", timeout=600, want_beh=False, workers=8), v, expect=inv)
    for cfg, inv in FINDINGS:   # the model of the code as it is must exhibit the open findings
        tlc_must_fail(run_tlc("CertIssue_MC", cfg, timeout=600, want_beh=False, workers=8), cfg, expect=inv)
    run.cov["negative_controls"] = [v for v, _ in negs]
    g = run_tlc("CertIssue_Gen", "CertIssue_Gen.cfg", timeout=1800, heap="16g")
    tlc_must_pass(g, "CertIssue_Gen")
    run.add_tlc(g, "CertIssue gen")
    behs = g.beh
    if len(behs) < 400000:
        raise NoVerdict(f"only {len(behs)} CertIssue behaviours")
    if t == "quick":   # a seeded third of the table (every mode and every refusal class is in every third)
        k = seed() % 3
        behs = [b for i, b in enumerate(behs) if i % 3 == k]
    d = scratch("x06")
    try:
        p = os.path.join(d, "beh.jsonl")
        with open(p, "w") as f:
            for b in behs:
                f.write(json.dumps(b) + "\n")
        shards = NCPU
        with cf.ThreadPoolExecutor(shards) as ex:
            futs = [ex.submit(run_vh, vh, ["replay-certissue", p, str(i), str(shards)], None, 3000, {"VERIF_TMP": d}) for i in range(shards)]
            outs = [parse_vh_json(f.result(), "replay-certissue") for f in futs]
    finally:
        shutil.rmtree(d, ignore_errors=True)
    for o in outs:
        _absorb(run, o)
    got = sum(o["extra"].get("behaviours_read", 0) for o in outs)
    if got != len(behs) and not run.violations:
        raise NoVerdict(f"replayed {got} of {len(behs)}")
    modes = {}
    for o in outs:
        for k_, v in o["counters"].items():
            if k_.startswith("mode_"):
                modes[k_] = modes.get(k_, 0) + v
    if len(modes) != 4 and not run.violations:
        raise NoVerdict(f"modes covered: {modes}")
    run.cov["modes"] = modes
    run.cov["rule"] = (f"{len(behs)} of the {len(g.beh)} complete behaviours of CertIssue_Gen ({'a seeded third' if t == 'quick' else 'all'}) on the real issuing functions: request / self-signed / "
                       "signed from a request (with and without --copy-extensions) / cross-signed; flags commonName, alternate-dns, key-usage {none, serverAuth, codeSigning, keyCertSign, "
                       "invalid}, cert-authority, serial {random, given, invalid}, rsa-pss; submitted object with alternative DNS / e-mail names, basicConstraints {absent, CA, not CA}, "
                       "keyUsage, extKeyUsage, a private extension {absent, non-critical, critical}, a subjectKeyIdentifier chosen by the requester, signature valid, broken or claiming an algorithm the library refuses to evaluate, PEM / DER / "
                       "not an object at all; issuer key RSA / P-256 / P-384, issuer certificate with or without subjectKeyIdentifier. Compared: refusal (and that the issuing key had not "
                       "signed), every projected field of the issued object, signature under the issuing key, issuer name, validity for --expire-days 30. non-trivial = something is issued")
    run.cov["exhaustive"] = t != "quick"
    run.assumptions += ["dimensions that do not interact are sampled in Init (PSS only with an RSA issuer and default serial; invalid serial only with plain input; non-PEM input only with default flags; EC issuers only with plain extensions)",
                        "the interactive confirmation (-i) is not driven; the other subject flags (country, organization, ...) travel with commonName as one unit",
                        "observed and modelled as implemented: with --copy-extensions a request's basicConstraints CA:TRUE makes a CA certificate without --cert-authority (the flag says 'verbatim'); alternative names other than DNS, e-mail, IP, URI are not copied"]
    return run.finish()


def replay(path):
    return run("quick")
