"""C06 — no signature leaves relic without an audit record.
TLC: spec/SignServer.tla (request life cycle x sinks x sink failures, interleaved requests) and
spec/AuditLog.tla (N appenders at system-call grain) + negative controls.  Binding (B): a real server
under concurrent signing load emits hook events; SignServer_Trace validates them together with the audit
file's actual lines; strace of the appenders validated by AuditLog_Trace; sink fault configurations;
standalone binary with auditfile."""
import json, os, re, subprocess, concurrent.futures as cf
from vlib.common import *
from vlib import relicenv

NEG_S = ["RespondFirst", "IgnoreSinkError", "FirstSinkOnly", "RecordRequestedName", "DefaultDigest", "DoubleAppend"]
NEG_A = ["TwoWrites", "NoAppend"]


def signsrv(vh, args, label, d):
    tr = os.path.join(d, label + ".ndjson")
    r = run_vh(vh, ["signsrv", "-trace", tr] + args, env={"VERIF_TMP": d}, timeout=900)
    o = parse_vh_json(r, label)
    lines = [json.loads(l) for l in open(tr)] if os.path.exists(tr) else []
    return o, lines


def absorb(run, o):
    run.cov["evaluations"] += o["evaluations"]
    run.cov["distinct_nontrivial"] += o["distinct_nontrivial"]
    for f in o["failures"]:
        run.violation(f["key"], f["desc"], f["replay"])


def validate_signserver(run, lines, label):
    ok, consumed, total, res = validate_trace("SignServer_Trace", "SignServer_Trace.cfg", lines, timeout=600, dfs=False)
    run.add_tlc(res, "trace " + label)
    if ok:
        run.cov["traces_validated_against_impl"] += 1
        run.cov["trace_events"] = run.cov.get("trace_events", 0) + total
        return
    # rejected: the event after the longest accepted prefix (or the invariant that failed)
    idx = consumed if consumed is not None else 0
    nxt = lines[idx] if idx < len(lines) else {}
    what = res.violated or "no-matching-action"
    run.violation({"engine": "signserver-trace", "scenario": label, "invariant": what, "event": nxt.get("ev", "?")},
                  f"{label}: trace of the real server rejected by SignServer ({what}) at event #{idx + 1}: "
                  f"{json.dumps({k: v for k, v in nxt.items() if v not in ('', [], False, 0)})}",
                  {"trace_prefix": lines[max(0, idx - 6): idx + 1]})


_esc_nl = re.compile(r'(?<!\\)(?:\\\\)*\\n')


def strace_appenders(run, vh, d, n, conc):
    wd = os.path.join(d, "st")
    os.makedirs(wd)
    log_ = os.path.join(wd, "strace.log")
    audit = os.path.join(wd, "audit.log")
    cmd = ["strace", "-f", "-s", "200000", "-o", log_, "-e", "trace=openat,write,pwrite64,writev,close", "-e", "signal=none",
           "-P", audit, vh, "signsrv", "-n", str(n), "-c", str(conc), "-dir", wd, "-verify=false"]
    r = subprocess.run(cmd, capture_output=True, timeout=600, env=dict(os.environ, VERIF_SEED=str(seed())))
    class R: pass
    rr = R(); rr.returncode, rr.stdout, rr.stderr = r.returncode, r.stdout, r.stderr
    o = parse_vh_json(rr, "strace-appenders")
    absorb(run, o)
    evs = []
    pending = {}
    readers = set()
    for raw in open(log_, errors="replace"):
        m = re.match(r"^(\d+)\s+(.*)$", raw.rstrip("\n"))
        if not m:
            continue
        pid, rest = m.groups()
        mu = re.match(r"^(\w+)\((.*) <unfinished \.\.\.>$", rest)
        if mu:
            pending[pid] = mu.group(1) + "(" + mu.group(2)
            continue
        mr = re.match(r"^<\.\.\. \w+ resumed>(.*)$", rest)
        if mr and pid in pending:
            rest = pending.pop(pid) + mr.group(1)
        mo = re.match(r'^openat\(AT_FDCWD, "([^"]*)", ([A-Z_|]+)(?:, \d+)?\)\s+= (\d+)', rest)
        if mo and mo.group(1) == audit:
            if "O_WRONLY" not in mo.group(2) and "O_RDWR" not in mo.group(2):
                readers.add(mo.group(3))   # read-only opens (the harness reading the file afterwards) are not appenders
                continue
            readers.discard(mo.group(3))
            evs.append({"ev": "open", "fd": mo.group(3), "append": "O_APPEND" in mo.group(2), "lines": 0, "complete": False,
                        "flags": mo.group(2)})
            continue
        mw = re.match(r'^(write|pwrite64|writev)\((\d+), "(.*)"(?:\.\.\.)?, (\d+)(?:, \d+)?\)\s+= (\d+)', rest)
        if mw:
            data, want, got = mw.group(3), int(mw.group(4)), int(mw.group(5))
            nl = len(_esc_nl.findall(data))
            evs.append({"ev": "write", "fd": mw.group(2), "append": False, "lines": nl,
                        "complete": data.endswith("\\n") and want == got and mw.group(1) == "write", "flags": ""})
            continue
        mc = re.match(r"^close\((\d+)\)", rest)
        if mc and mc.group(1) in readers:
            readers.discard(mc.group(1))
            continue
        if mc:
            evs.append({"ev": "close", "fd": mc.group(1), "append": False, "lines": 0, "complete": False, "flags": ""})
    nwrites = sum(1 for e in evs if e["ev"] == "write")
    if nwrites < n // 2:
        raise NoVerdict(f"strace saw only {nwrites} audit writes for {n} requests")
    ok, consumed, total, res = validate_trace("AuditLog_Trace", "AuditLog_Trace.cfg", evs, timeout=600, dfs=False)
    run.add_tlc(res, "trace audit appenders")
    if ok:
        run.cov["traces_validated_against_impl"] += 1
        run.cov["appender_syscalls"] = total
    else:
        idx = consumed if consumed is not None else 0
        nxt = evs[idx] if idx < len(evs) else {}
        run.violation({"engine": "auditlog-trace", "event": nxt.get("ev", "?")},
                      f"audit file appenders: system call #{idx + 1} is not an AuditLog step (open must carry O_APPEND, each write must be "
                      f"exactly one complete line): {nxt}", {"prefix": evs[max(0, idx - 4): idx + 1]})
    # the file itself
    data = open(audit, "rb").read()
    lines = data.split(b"\n")
    if data and lines[-1] != b"":
        run.violation({"engine": "auditlog-file", "kind": "torn"}, "audit file does not end in a newline", None)
    for i, l in enumerate(lines[:-1]):
        try:
            json.loads(l)
        except Exception:
            run.violation({"engine": "auditlog-file", "kind": "torn"}, f"audit file line {i+1} is not one JSON object", None)
            break


def standalone(run, relic, d):
    """the real binary with auditfile: exit 0 => exactly one new line naming key/type/digest/file; unwritable sink => non-zero exit"""
    wd = os.path.join(d, "sa")
    os.makedirs(wd)
    audit = os.path.join(wd, "audit.log")
    conf = relicenv.write_conf(wd, extra=f"auditfile: {audit}\n")
    cases = [("hello.jar", [], "jar", "SHA-256"), ("ClassLibrary1.dll", ["--digest", "sha512"], "pe-coff", "SHA-512"),
             ("hello.ps1", ["--digest", "sha384"], "ps", "SHA-384")]
    for fx, extra, st, hname in cases:
        inp = os.path.join(wd, fx)
        shutil.copy(os.path.join(relicenv.PKGS, fx), inp)
        before = open(audit).read().count("\n") if os.path.exists(audit) else 0
        r = subprocess.run([relic, "-c", conf, "sign", "-k", "rsa2048", "-f", inp, "-o", inp + ".out"] + extra, capture_output=True)
        after_lines = open(audit).read().splitlines() if os.path.exists(audit) else []
        run.cov["evaluations"] += 1
        key = {"engine": "standalone-audit", "type": st}
        if r.returncode != 0:
            raise NoVerdict(f"standalone sign of {fx} failed: {r.stderr[-300:]}")
        if len(after_lines) - before != 1:
            run.violation(dict(key, kind="count"), f"standalone sign {fx}: exit 0 but {len(after_lines) - before} new audit lines", None)
            continue
        rec = json.loads(after_lines[-1])
        if rec.get("sig.keyname") != "rsa2048" or rec.get("sig.type") != st or rec.get("sig.hash") != hname or not rec.get("sig.x509.fingerprint"):
            run.violation(dict(key, kind="content"), f"standalone sign {fx}: audit record {rec} does not name key/type/digest/certificate used", None)
    # unwritable sink
    conf2 = relicenv.write_conf(os.path.join(wd), extra=f"auditfile: {wd}/missing/audit.log\n")
    inp = os.path.join(wd, "hello.jar")
    r = subprocess.run([relic, "-c", conf2, "sign", "-k", "rsa2048", "-f", inp, "-o", inp + ".out2"], capture_output=True)
    run.cov["evaluations"] += 1
    if r.returncode == 0:
        run.violation({"engine": "standalone-audit", "kind": "sink-failure-ignored"},
                      "standalone sign with an unwritable audit file exited 0", None)


BROKER_MIX = ["ack", "nack", "ack-late", "drop-after-publish", "ack", "connclose-after-publish", "chanclose-after-publish", "declare-refused",
              "select-refused", "auth-refused", "drop-at-handshake", "drop-after-declare", "ack"]
ANEG = [("NoConfirmMode", "PreparedBeforePublish"), ("FireAndForget", "OkOnlyIfAcked"), ("IgnoreNack", "OkOnlyIfAcked"), ("ClosedIsAck", "OkOnlyIfAcked"),
        ("LeakConnection", "ClosedAtEnd"), ("PublishFirst", "PreparedBeforePublish")]


def amqp_publisher(run, vh, d, t):
    """AmqpPublish.tla: the publisher with confirms against every broker behaviour; TLC + both bindings."""
    r = run_tlc("AmqpPublish_MC", "AmqpPublish_MC.cfg", timeout=300, want_beh=False)
    tlc_must_pass(r, "AmqpPublish_MC")
    run.add_tlc(r, "AmqpPublish mc (11 broker behaviours; liveness Terminates)")
    for v, inv in ANEG:
        tlc_must_fail(run_tlc("AmqpPublish_MC", f"AmqpPublish_Neg_{v}.cfg", timeout=300, want_beh=False, workers=1), v, expect=inv)
    run.cov["negative_controls"] = run.cov.get("negative_controls", []) + [v for v, _ in ANEG]
    g = run_tlc("AmqpPublish_Gen", "AmqpPublish_Gen.cfg", timeout=300)
    tlc_must_pass(g, "AmqpPublish_Gen")
    exp = {json.dumps(b, sort_keys=True): b for b in g.beh}
    if len({b["kind"] for b in exp.values()}) != 11 or len(exp) != 11:
        raise NoVerdict(f"AmqpPublish: {len(exp)} terminal states for 11 broker behaviours (one outcome each expected)")
    p = os.path.join(d, "amqp-exp.jsonl")
    tp = os.path.join(d, "amqp-trace.ndjson")
    with open(p, "w") as f:
        for b in exp.values():
            f.write(json.dumps(b) + "\n")
    reps = 6 if t == "quick" else 40
    o = parse_vh_json(run_vh(vh, ["amqp-publish", p, str(reps), tp], env={"VERIF_TMP": d}, timeout=1200), "amqp-publish")
    absorb(run, o)
    if o["extra"].get("runs") != 11 * reps and not o["failures"]:
        raise NoVerdict(f"amqp-publish ran {o['extra']}")
    lines = [json.loads(l) for l in open(tp)]
    acc, consumed, total, res = validate_trace("AmqpPublish_Trace", "AmqpPublish_Trace.cfg", lines, timeout=600)
    run.cov["traces_validated_against_impl"] += 11 * reps
    if not acc:
        at = lines[max(0, (consumed or 1) - 1)] if lines else {}
        kind = next((l["kind"] for l in reversed(lines[:consumed or 1]) if l.get("ev") == "Begin"), "?")
        inv = (res.violated or "event not allowed")
        run.violation({"engine": "amqp-publish-trace", "kind": kind, "invariant": str(inv)},
                      f"AmqpPublish_Trace rejects the publisher's run against broker behaviour {kind} at event {consumed}/{total} ({at.get('ev')}): {inv}",
                      {"events": lines[max(0, (consumed or 1) - 12):(consumed or 1) + 2]})
    run.cov["amqp_runs"] = 11 * reps


def run(t):
    run = Run("C06", "model_checking", t)
    vh = build_vh()
    relic = build_relic(tags="")
    for cfg in ("SignServer_MC_both.cfg", "SignServer_MC_file.cfg", "SignServer_MC_amqp.cfg", "SignServer_MC_none.cfg"):
        r = run_tlc("SignServer_MC", cfg, timeout=600, want_beh=False, workers=8)
        tlc_must_pass(r, cfg)
        run.add_tlc(r, cfg)
    r = run_tlc("AuditLog_MC", "AuditLog_code.cfg", timeout=300, want_beh=False, workers=4)
    tlc_must_pass(r, "AuditLog")
    run.add_tlc(r, "AuditLog 3 appenders x 2 lines")
    for v in NEG_S:
        tlc_must_fail(run_tlc("SignServer_MC", f"SignServer_Neg_{v}.cfg", timeout=300, want_beh=False, workers=2), v)
    for v in NEG_A:
        tlc_must_fail(run_tlc("AuditLog_MC", f"AuditLog_{v}.cfg", timeout=300, want_beh=False, workers=2), v)
    run.cov["negative_controls"] = NEG_S + NEG_A
    d = scratch("c06")
    try:
        n_ok = 80 if t == "quick" else 250
        conc = 8 if t == "quick" else 32
        scen = [("file-ok", ["-audit", "ok", "-n", str(n_ok), "-c", str(conc)]),
                ("no-sinks", ["-audit", "none", "-n", "20", "-c", "4"]),
                ("file-missingdir", ["-audit", "missingdir", "-n", "20", "-c", "4", "-verify=false"]),
                ("file-isdir", ["-audit", "isdir", "-n", "20", "-c", "4", "-verify=false"]),
                ("file-devfull", ["-audit", "devfull", "-n", "20", "-c", "4", "-verify=false"]),
                ("amqp-refused", ["-audit", "none", "-amqp", "refused", "-n", "20", "-c", "4", "-verify=false"]),
                ("amqp-refused+file", ["-audit", "ok", "-amqp", "refused", "-n", "20", "-c", "4", "-verify=false"]),
                # a scripted broker: connection i behaves as the i-th kind of the list (cyclically)
                ("amqp-broker-ack+file", ["-audit", "ok", "-amqp", "broker:ack,ack-late", "-n", "40", "-c", "4"]),
                ("amqp-broker-mixed+file", ["-audit", "ok", "-amqp", "broker:" + ",".join(BROKER_MIX), "-n", "66", "-c", "6", "-verify=false"]),
                ("amqp-broker-mixed", ["-audit", "none", "-amqp", "broker:" + ",".join(reversed(BROKER_MIX)), "-n", "44", "-c", "4", "-verify=false"]),
                ("amqp-broker-ack+file-devfull", ["-audit", "devfull", "-amqp", "broker:ack", "-n", "12", "-c", "3", "-verify=false"])]
        if t == "thorough":
            scen += [(f"file-ok-{i}", ["-audit", "ok", "-n", "150", "-c", "16", "-cache", "1", "-rate", "200"]) for i in range(3)]
        results = {}
        with cf.ThreadPoolExecutor(4) as ex:
            futs = {label: ex.submit(signsrv, vh, args, label, d) for label, args in scen}
            for label, f in futs.items():
                results[label] = f.result()
        with cf.ThreadPoolExecutor(4) as ex:
            list(ex.map(lambda kv: None, []))
        for label, (o, lines) in results.items():
            absorb(run, o)
            if label.startswith("amqp-refused+file"):
                # the file must stay empty when the first sink fails: checked by the harness (no 2xx) and the trace
                pass
            validate_signserver(run, lines, label)
            if label == "file-ok":
                run.sample([{k: v for k, v in e.items() if v not in ("", [], False, 0)} for e in lines[1:7]])
        # the publisher itself under concurrency (32 goroutines through signinit.PublishAudit): each record once, intact, unmixed
        absorb(run, parse_vh_json(run_vh(vh, ["audit-stress", "32", "150" if t == "quick" else "1500"], env={"VERIF_TMP": d}, timeout=900), "audit-stress"))
        amqp_publisher(run, vh, d, t)
        strace_appenders(run, vh, d, 60 if t == "quick" else 300, 8 if t == "quick" else 32)
        standalone(run, relic, d)
    finally:
        shutil.rmtree(d, ignore_errors=True)
    run.cov["rule"] = ("scenarios = sink configurations {file ok, none, file in missing directory, directory as file, /dev/full, AMQP broker "
                       "refusing, AMQP refusing + file, scripted AMQP broker acknowledging (+ file), scripted broker cycling through 13 behaviours per connection (ack, nack, late ack, "
                       "connection cut / connection.close / channel.close instead of a confirmation, exchange.declare or confirm.select or the credentials refused, cut during the handshake "
                       "or after the declaration) with and without the file, acknowledging broker + /dev/full}; the AMQP publisher alone against each of the 11 behaviours (transcripts validated by AmqpPublish_Trace); each: a real server.Handler behind a loopback listener, N concurrent clients "
                       "signing a seeded mix (3 key names incl. an alias, jar/pe-coff/ps/pgp, 3 digests); hook events + client-side "
                       "request/response events + the audit file's actual lines form one trace validated by SignServer_Trace with all "
                       "invariants after every event; the appenders' system calls (strace) validated by AuditLog_Trace; standalone "
                       "binary with auditfile. evaluations = requests issued")
    run.assumptions += ["no AMQP broker in the sandbox: the broker is a stand-in (harness/internal/fakeamqp) that speaks AMQP 0-9-1 as far as a confirming publisher needs it; what a real broker does beyond its eleven scripted behaviours (flow control, blocked connections, heartbeat loss, a confirmation that never comes) is not covered",
                        "ordering evidence comes from verif hooks (process-wide sequence counter); end-state checks (line count = 2xx "
                        "count, one JSON object per line, no 2xx when a sink is unwritable) are hook-independent"]
    return run.finish()


def replay(path):
    print(json.dumps(json.load(open(path)), indent=1)[:5000])
    print("re-run: ./check C06")
    return 0
