"""C08 — re-signing replaces the signature; digests ignore existing signatures.
Model: SignPipeline histories (three rounds with differing keys/digests, unsupported digests in between);
binding (A): every history replayed per type: after each round relic verify, exactly one signature, payload equal to
the original (independent readers), is-signed probe true on outputs / false on unsigned fixtures, embedded content
digest (PE, PowerShell) equal across rounds."""
from vlib.common import *
from vlib import pipeline


def run(t):
    run = Run("C08", "model_checking", t)
    vh = build_vh()
    pipeline.model_check(run)
    cases = pipeline.gen_cases(run, "SignPipeline_Gen3.cfg")
    if t == "quick":
        rnd = random.Random(seed())
        keep = [c for c in cases if sum(1 for r in c["rounds"] if r["outcome"] == "ok") >= 2]
        rest = [c for c in cases if c not in keep]
        rnd.shuffle(rest)
        cases = keep + rest[:300]
    c = pipeline.replay(run, vh, cases, "C08", shards=8, extra_owned=("payload-changed", "output-malformed"))
    if c.get("signed_verified", 0) < 1000:
        raise NoVerdict("too few successful rounds: vacuous")
    run.cov["rule"] = (f"{len(cases)} histories of SignPipeline_Gen3.cfg (21 types x 3 rounds over keys {{rsa2048, p256}} x digests {{md5, sha256, "
                       "sha512}}, alternating same-path / new-path output); after every successful round: relic verify (integrity+chain), "
                       "exactly one signature, names the round's certificate and digest, payload items equal to the ORIGINAL input per "
                       "independent reader, is-signed probe true; probe false on unsigned fixtures; PE/PowerShell content digest equal "
                       "across rounds with the same algorithm. non-trivial = at least one successful round")
    run.cov["exhaustive"] = (t == "thorough")
    run.assumptions += ["starting artifacts: the repository fixtures (some already carry third-party signatures: appx, vsix, rpm, the .exe)"]
    return run.finish()


def replay(path):
    import json
    print(json.dumps(json.load(open(path)), indent=1)[:3000]); print("re-run: ./check C08"); return 0
