"""C02 — any change to signed content or to the signature makes verification fail.
Model: spec/Tamper.tla (type x region x mutation kind decision table: which regions each format's signature is
defined to cover, stated conservatively) + 3 negative controls. Binding (A): one signed artifact per type and key
(RSA, ECDSA); the byte set of each region is computed by parsers that share no code with relic (archive/zip,
own PE / ar / rpm / koly / cab / mach-o / XML / armor walkers and a CMS DER walker locating signature value, signed
attributes and signer-certificate TBS); bytes are mutated one at a time and relic's verifier runs with integrity
and chain checking."""
import json, os, concurrent.futures as cf
from vlib.common import *

NEG = ["PayloadUnchecked", "SigValueUnchecked", "AppendIgnored", "MetadataUnchecked"]


def run(t):
    run = Run("C02", "model_checking", t)
    vh = build_vh()
    r = run_tlc("Tamper_MC", "Tamper_code.cfg", timeout=300, want_beh=False, workers=4)
    tlc_must_pass(r, "Tamper")
    run.add_tlc(r, "Tamper mc")
    for v in NEG:
        tlc_must_fail(run_tlc("Tamper_MC", f"Tamper_{v}.cfg", timeout=300, want_beh=False, workers=2), v, "Sound")
    run.cov["negative_controls"] = NEG
    g = run_tlc("Tamper_MC", "Tamper_Gen.cfg", timeout=300, workers=4)
    tlc_must_pass(g, "Tamper gen")
    run.add_tlc(g, "Tamper gen")
    budget = 24 if t == "quick" else 400
    d = scratch("c02")
    try:
        p = os.path.join(d, "cases.jsonl")
        with open(p, "w") as f:
            for b in g.beh:
                f.write(json.dumps(b) + "\n")
        shards = 8
        with cf.ThreadPoolExecutor(shards) as ex:
            futs = [ex.submit(run_vh, vh, ["tamper", p, f"budget={budget}", f"shard={i}/{shards}"], None, 3000, {"VERIF_TMP": d}) for i in range(shards)]
            outs = [parse_vh_json(f.result(), "tamper") for f in futs]
    finally:
        shutil.rmtree(d, ignore_errors=True)
    panics = {}
    swept = 0
    for o in outs:
        run.cov["evaluations"] += o["evaluations"]
        run.cov["distinct_nontrivial"] += o["distinct_nontrivial"]
        run.cov["traces_validated_against_impl"] += o["counters"].get("regions_swept", 0)
        swept += o["counters"].get("regions_swept", 0)
        for k, v in o["counters"].items():
            if k.startswith("verifier_panics"):
                panics[k] = panics.get(k, 0) + v
        for n in o["notes"]:
            run.notes.append(n)
        for f in o["failures"]:
            run.violation(f["key"], f["desc"], f["replay"])
    if swept < 100:
        raise NoVerdict(f"only {swept} regions swept")
    run.cov["verifier_panics_seen"] = panics   # C11's subject; a crash is not 'success'
    run.sample({"type": "pe-dll", "region": "payload", "kind": "flip", "mustReject": True})
    run.sample(g.beh[0])
    run.cov["rule"] = (f"{len(g.beh)} (type, region, kind) rows of the table; per row up to {budget} byte positions per key type (region boundaries, "
                       "a stride over the region, seeded random positions); mutation kinds flip/zero/inc/ff (alphabet-preserving for base64 and "
                       "text); deflate-stream mutations that do not change what a standard zip reader sees are skipped; plus bytes appended "
                       "after PE and CAB containers. evaluations = verifier runs on mutated artifacts")
    run.assumptions += ["regions are stated positively and conservatively: CMS = signature value + signed attributes + signer certificate TBS; "
                        "PGP = trailing signature MPI; XML = attribute values outside comments/namespace declarations, SignatureValue, DigestValue",
                        "msi streams and pkg heap are not swept; semantic mutations: PE signature grafting and JAR manifest/.SF regeneration only"]
    return run.finish()


def replay(path):
    print(json.dumps(json.load(open(path)), indent=1)[:3000]); print("re-run: ./check C02"); return 0
