"""X08 (extension, outside the twenty listed properties) - the `relic serve` process under signals.
TLC: spec/ServeSignals.tla (SIGUSR1 does nothing; the first SIGINT / SIGTERM / SIGQUIT / SIGUSR2 begins a graceful shutdown:
listeners closed, requests in flight served to the end, exit status 0; any further one ends the process at once):
GracefulLosesNothing, Usr1Harmless, ExitZero, SecondSignalEnds, NothingNewWhileDraining, liveness ShutdownCompletes; 5
negative controls. Binding (B): fifteen scenarios on the real `relic serve` process (file token, plain-HTTP listener
behind the trusted-proxy headers): raw HTTP requests whose second half the driver withholds keep a request in flight while
signals are sent; the driver's event log (requests begun / answered in full with a signature / cut off, connection attempts
refused, signals, exit status) is validated by trace/ServeSignals_Trace with every invariant after every event."""
import json, os
from vlib.common import *
from checks.C15 import _absorb

NEG = [("ExitAtFirstSignal", "GracefulLosesNothing"), ("Usr1Stops", "Usr1Harmless"), ("AcceptWhileDraining", "NothingNewWhileDraining"),
       ("SecondSignalIgnored", "SecondSignalEnds"), ("ExitNonZero", "ExitZero")]


def run(t):
    run = Run("X08", "model_checking", t)
    vh = build_vh()
    relic = build_relic()
    r = run_tlc("ServeSignals_MC", "ServeSignals_MC.cfg", timeout=600, want_beh=False, workers=4)
    tlc_must_pass(r, "ServeSignals_MC")
    run.add_tlc(r, "ServeSignals mc (3 requests, 3 signals out of 5 kinds; liveness ShutdownCompletes)")
    for v, inv in NEG:
        tlc_must_fail(run_tlc("ServeSignals_MC", f"ServeSignals_Neg_{v}.cfg", timeout=300, want_beh=False, workers=1), v, expect=inv)
    run.cov["negative_controls"] = [v for v, _ in NEG]
    reps = 1 if t == "quick" else 5
    d = scratch("x08")
    try:
        for rep in range(reps):
            tp = os.path.join(d, f"trace-{rep}.ndjson")
            o = parse_vh_json(run_vh(vh, ["serve-signals", relic, tp], env={"VERIF_TMP": d}, timeout=900), "serve-signals")
            _absorb(run, o)
            c = o["counters"]
            if (c.get("scenarios", 0) != o["extra"].get("scenarios") or c.get("driver_errors") or c.get("start_failed")) and not run.violations:
                raise NoVerdict(f"scenarios run: {c} (notes: {o.get('notes')})")
            lines = [json.loads(l) for l in open(tp)]
            acc, consumed, total, res = validate_trace("ServeSignals_Trace", "ServeSignals_Trace.cfg", lines, timeout=300)
            run.add_tlc(res, f"trace {rep}")
            run.cov["traces_validated_against_impl"] += c.get("scenarios", 0)
            run.cov["trace_events"] = run.cov.get("trace_events", 0) + total
            if not acc:
                idx = consumed if consumed is not None else 0
                sc = next((l["scenario"] for l in reversed(lines[:max(idx, 1)]) if l.get("ev") == "Start"), "?")
                nxt = lines[idx - 1] if 0 < idx <= len(lines) else {}
                what = res.violated or "no-matching-action"
                run.violation({"engine": "serve-signals-trace", "scenario": sc, "invariant": str(what)},
                              f"scenario {sc}: the event log of the real process is rejected by ServeSignals ({what}) at event {idx}/{total}: {json.dumps(nxt)}",
                              {"events": lines[max(0, idx - 8): idx + 2]})
            if rep == 0:
                run.sample(lines[:10])
    finally:
        shutil.rmtree(d, ignore_errors=True)
    run.cov["rule"] = (f"{reps} x 15 scenarios, each on a fresh `relic serve` process (six at a time): first signal TERM / INT / QUIT / USR2 with the server idle and with a request in flight; two requests in "
                       "flight finished one after the other after the signal (the process must outlive the first answer); a second TERM / INT while a request is in flight; USR1 before and "
                       "during service and during a drain; a request in flight with the metrics listener configured; a drain of 36 s (slow upload) that must still be served to the end. After a terminating signal the driver polls the port until a connection is refused (connections still accepted while the signal "
                       "is on its way carry no request); if the port still takes requests after 5 s a real request is made and logged. Bounds: graceful exit within 10 s of the last answer, "
                       "immediate exit within 5 s. Answers must be 200 with a signature.")
    run.cov["exhaustive"] = False
    run.assumptions += ["signals are logged when sent; their effect is awaited by observation (port refusing, process gone), never by a fixed sleep deciding a verdict",
                        "a request is 'in flight' once the server has answered its head with 100 Continue (the handler has begun to read the body) and half the body is written; the TLS listener and HTTP/2 are not driven here (Relic.tla / C06 / C14 drive the in-process server)",
                        "Windows signal handling (signals_windows.go) is not covered"]
    return run.finish()


def replay(path):
    return run("quick")
