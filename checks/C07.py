"""C07 — signatures are only issued under a certificate that matches the key.
TLC: spec/KeyCert.tla over all key/certificate configurations (5 keys x certificate source x chain order x PGP
certificate x 6 construction paths) + 4 negative controls; binding (A): every configuration replayed through
signinit.Init -> certloader.LoadTokenCertificates and one real signer per path (jar, ps, appmanifest, apk v2,
xar, pgp); emitted artifacts verified and the named leaf compared with the key that really signed."""
import json, os
from vlib.common import *

NEG = ["NoSameKey", "TypeOnlySameKey", "LeafNotFirst", "PgpUnchecked", "PgpSkippedBesideX509", "SameXOnly", "CacheBySource"]


def run(t):
    run = Run("C07", "model_checking", t)
    vh = build_vh()
    r = run_tlc("KeyCert_MC", "KeyCert_MC.cfg", timeout=600, want_beh=False, workers=8)
    tlc_must_pass(r, "KeyCert_MC")
    run.add_tlc(r, "KeyCert mc")
    for v in NEG:
        tlc_must_fail(run_tlc("KeyCert_MC", f"KeyCert_Neg_{v}.cfg", timeout=300, want_beh=False, workers=2), v, "EmitImpliesMatch")
    run.cov["negative_controls"] = NEG
    g = run_tlc("KeyCert_MC", "KeyCert_Gen.cfg", timeout=600, workers=8)
    tlc_must_pass(g, "KeyCert_Gen")
    run.add_tlc(g, "KeyCert gen")
    d = scratch("c07")
    try:
        p = os.path.join(d, "beh.jsonl")
        with open(p, "w") as f:
            for b in g.beh:
                f.write(json.dumps(b) + "\n")
        o = parse_vh_json(run_vh(vh, ["replay-keycert", p], env={"VERIF_TMP": d}, timeout=1800), "keycert")
    finally:
        shutil.rmtree(d, ignore_errors=True)
    if o["extra"].get("behaviours_read") != len(g.beh):
        raise NoVerdict("keycert replay incomplete")
    if o["counters"].get("emitted", 0) < 30:
        raise NoVerdict(f"only {o['counters'].get('emitted', 0)} configurations emitted a signature: replay is vacuous")
    run.cov["evaluations"] = o["evaluations"]
    run.cov["distinct_nontrivial"] = o["distinct_nontrivial"]
    run.cov["traces_validated_against_impl"] = o["evaluations"]
    run.cov["counters"] = o["counters"]
    for s in o["samples"][:3]:
        run.sample(s)
    for f in o["failures"]:
        run.violation(f["key"], f["desc"], f["replay"])
    # a key lookup that resolves to a different key than the one the caller holds (rotation behind the worker RPC):
    # the signature must come from the pinned key or fail - never verify only under another key
    o2 = parse_vh_json(run_vh(vh, ["worker-classify"], timeout=300), "worker-classify")
    run.cov["evaluations"] += o2["evaluations"]
    for f in o2["failures"]:
        if f["key"].get("kind") == "pin":
            run.violation(f["key"], f["desc"], f["replay"])
    run.cov["rule"] = (f"all {len(g.beh)} configurations of KeyCert_Gen.cfg: private key in the token (RSA a/b, P-256 a/b, P-384) x X.509 source "
                       "(file for key k', chain file leaf-only/leaf-first/leaf-last/leaf-middle, certificate blob from the token) x PGP "
                       "certificate for key k'' x path; each loaded through the real signinit/certloader and signed on a fixture; "
                       "mismatch => must be an error; emitted => relic verifies it AND the named leaf carries the signing key's public "
                       "key (jar: embedded chain begins with the leaf, read by the harness's own CMS reader). non-trivial = mismatch or emitted")
    run.cov["exhaustive"] = True
    run.assumptions += ["PGP certificates are generated for RSA keys only (EC + PGP configurations are skipped and counted)",
                        "cosign and PKCS#12 sources are not replayed"]
    return run.finish()


def replay(path):
    print(json.dumps(json.load(open(path)), indent=1)[:3000])
    print("re-run: ./check C07")
    return 0
