"""C13 — interrupted output never leaves a torn or missing file.
Model: spec/OutputFS.tla (crash enabled in every state, invariants = atomicity at every syscall
boundary) + negative controls.  Binding (B): system calls of the real relic binary and of the
output-phase driver recorded with strace and validated by OutputFS_Trace (invariants evaluated
after every recorded call).  Real crashes: SIGKILL injected on entry of each output-phase call."""
import json, os, re, subprocess, hashlib
from vlib.common import *
from vlib import stracefs, relicenv

NEG = ["UnlinkThenRename", "WriteToDest", "LeakTemp", "RenameEarly"]


def sha(b):
    return hashlib.sha256(b).hexdigest()[:16]


def read(p):
    if os.path.isdir(p):
        return None
    try:
        with open(p, "rb") as f:
            return f.read()
    except FileNotFoundError:
        return None


class Scenario:
    def __init__(self, name, kind, argv_fn, fixture, dest_name, same=False, expect_fail=False, verify=None,
                 expected_fn=None, setup=None):
        self.name, self.kind, self.argv_fn, self.fixture = name, kind, argv_fn, fixture
        self.dest_name, self.same, self.expect_fail = dest_name, same, expect_fail
        self.verify, self.expected_fn, self.setup = verify, expected_fn, setup


def splice_expected(orig):
    n = len(orig)
    return b"HEAD" + orig[:n // 2] + b"MIDDLE" + orig[n // 2 + 3:] + b"TAIL"


def new_content(n):
    return bytes((ord('A') + i % 23) for i in range(n))


def scenarios(vh, relic, t):
    P = relicenv.PKGS
    S = []
    drv = lambda sc: (lambda conf, i, o: [vh, "fsdrive", sc, i, o])
    S.append(Scenario("d-whole", "driver", drv("whole"), "hello.jar", "out.bin", expected_fn=lambda o: new_content(100000)))
    S.append(Scenario("d-writefile", "driver", drv("writefile"), "hello.jar", "out.bin", expected_fn=lambda o: new_content(70000)))
    S.append(Scenario("d-rewrite", "driver", drv("rewrite"), "dummy.apk", "out.bin", expected_fn=splice_expected))
    S.append(Scenario("d-rewrite-same", "driver", drv("rewrite"), "dummy.apk", None, same=True, expected_fn=splice_expected))
    S.append(Scenario("d-msi", "driver", drv("msi"), "dummy.msi", "out.msi"))
    S.append(Scenario("d-rewrite-trunc", "driver", drv("rewrite-trunc"), "dummy.apk", "out.bin", expect_fail=True))
    S.append(Scenario("d-whole-nodir", "driver", drv("whole"), "hello.jar", "missing/out.bin", expect_fail=True))
    # the commit itself fails (the output path is a directory, rename cannot replace it): handled error, no temp left
    S.append(Scenario("d-rewrite-destdir", "driver", drv("rewrite"), "dummy.apk", "outdir.bin", expect_fail=True, setup="destdir"))
    S.append(Scenario("d-msi-destdir", "driver", drv("msi"), "dummy.msi", "outdir.msi", expect_fail=True, setup="destdir"))
    # the output path is a symbolic link (to a complete file / to nothing): the path must still change atomically
    S.append(Scenario("d-whole-symlink", "driver", drv("whole"), "hello.jar", "link.bin", expected_fn=lambda o: new_content(100000), setup="symlink"))
    S.append(Scenario("d-whole-dangling", "driver", drv("whole"), "hello.jar", "link.bin", expected_fn=lambda o: new_content(100000), setup="dangling"))
    # a response that is not a signature: handled error, destination untouched
    S.append(Scenario("d-pgp-clearsign-bad", "driver", drv("pgp-clearsign-bad"), "Release", "InRelease", expect_fail=True))
    S.append(Scenario("d-pgp-inline-bad", "driver", drv("pgp-inline-bad"), "Release", "Release.gpg", expect_fail=True))
    sign = lambda extra=[]: (lambda conf, i, o: [relic, "-c", conf, "sign", "-k", "rsa2048", "-f", i, "-o", o] + extra)
    ver = lambda p: relicenv.verify(relic, p)[0]
    S.append(Scenario("b-jar", "binary", sign(), "hello.jar", "out.jar", verify=ver))
    S.append(Scenario("b-msi", "binary", sign(), "dummy.msi", "out.msi", verify=ver))
    S.append(Scenario("b-cat", "binary", sign(), "hyperv.cat", "out.cat", verify=ver))
    S.append(Scenario("b-pgp-clearsign", "binary",
                      lambda conf, i, o: [relic, "-c", conf, "sign-pgp", "-u", "rsa2048", "--clearsign", i, "-o", o],
                      "Release", "InRelease", verify=lambda p: relicenv.verify(relic, p, cert="rsa2048.pgp")[0]))
    S.append(Scenario("b-jar-same", "binary", lambda conf, i, o: [relic, "-c", conf, "sign", "-k", "rsa2048", "-f", i],
                      "hello.jar", None, same=True, verify=ver))
    S.append(Scenario("b-pe", "binary", sign(), "ClassLibrary1.dll", "out.dll", verify=ver))
    S.append(Scenario("b-ps1", "binary", sign(), "hello.ps1", "out.ps1", verify=ver))
    if t == "thorough":
        S.append(Scenario("b-deb", "binary", sign(), "zlib1g_1.2.8.dfsg-5_i386.deb", "out.deb",
                          verify=lambda p: relicenv.verify(relic, p, cert="rsa2048.pgp")[0]))
        S.append(Scenario("b-pgp-detach", "binary",
                          lambda conf, i, o: [relic, "-c", conf, "sign-pgp", "-u", "rsa2048", "-ba", i, "-o", o],
                          "Release", "Release.gpg", verify=None))
        S.append(Scenario("b-xap", "binary", sign(), "dummy.xap", "out.xap", verify=ver))
    return S


OLD = b"previous complete content of the destination\n" * 50


class Env:
    """one scratch directory per run of a scenario"""
    def __init__(self, sc, dest_existed):
        self.sc, self.dest_existed = sc, dest_existed
        self.dir = scratch("c13")
        self.conf = relicenv.write_conf(self.dir)
        self.inp = os.path.join(self.dir, "in-" + os.path.basename(sc.fixture))
        shutil.copy(os.path.join(relicenv.PKGS, sc.fixture), self.inp)
        self.orig = read(self.inp)
        if sc.same:
            self.dest = self.inp
            self.old = self.orig
        else:
            self.dest = os.path.join(self.dir, sc.dest_name)
            self.old = None
            if sc.setup == "destdir":
                os.makedirs(os.path.join(self.dest, "keep"))
            elif sc.setup in ("symlink", "dangling"):
                target = os.path.join(self.dir, "link-target.bin")
                if sc.setup == "symlink" and dest_existed:
                    self.old = OLD
                    with open(target, "wb") as f:
                        f.write(OLD)
                os.symlink(target, self.dest)
            elif dest_existed and os.path.isdir(os.path.dirname(self.dest)):
                self.old = OLD
                with open(self.dest, "wb") as f:
                    f.write(OLD)
        self.argv = sc.argv_fn(self.conf, self.inp, self.dest)
        self.log = os.path.join(self.dir, "strace.log")

    def temps(self):
        d = os.path.dirname(self.dest)
        if not os.path.isdir(d):
            d = self.dir
        return [x for x in os.listdir(d) if ".tmp" in x]

    def close(self):
        shutil.rmtree(self.dir, ignore_errors=True)


def norm_event(e):
    base = {"ev": "nop", "path": "", "path2": "", "excl": False, "trunc": False, "code": 0,
            "destExisted": False, "inputIsDest": False, "sys": "", "scn": ""}
    base.update({k: v for k, v in e.items() if k in base})
    return base


def baseline(run, sc, dest_existed, traces, expected_new):
    """un-faulted run under strace: returns (events, calls) and checks the end state"""
    env = Env(sc, dest_existed)
    try:
        r = stracefs.run_strace(env.argv, env.log, cwd=env.dir)
        calls, killed = stracefs.parse(env.log)
        evs = stracefs.events(calls, env.dest, None if sc.same else env.inp)
        ok = (r.returncode == 0)
        if ok and sc.expect_fail:
            # the operation cannot succeed (unwritable destination / a response that is not a signature): success means the
            # error was swallowed, and whatever is at the destination now is not a complete result
            final_ = read(env.dest) if not os.path.isdir(env.dest) else None
            run.violation({"engine": "outputfs-end", "scenario": sc.name, "state": "error-swallowed"},
                          f"{sc.name}/{'existing' if dest_existed else 'absent'}: exit status 0 for an operation that cannot succeed; the destination "
                          f"now holds {('%d bytes' % len(final_)) if final_ is not None else 'no file'}"
                          f"{' (the previous content is gone)' if env.old is not None and final_ != env.old else ''}", {"argv": env.argv})
            return None, None
        if ok == sc.expect_fail:
            raise NoVerdict(f"scenario {sc.name}: unexpected exit status {r.returncode}: {r.stderr[-500:]}")
        label = f"{sc.name}/{'existing' if dest_existed else 'absent'}"
        tr = [norm_event({"ev": "begin", "destExisted": bool(dest_existed or sc.same), "inputIsDest": sc.same, "scn": label})]
        tr += [norm_event(dict(e, scn=label)) for e in evs]
        tr.append(norm_event({"ev": "exit", "code": r.returncode, "scn": label}))
        traces.append((label, sc, tr))
        final = read(env.dest)
        key = {"engine": "outputfs-end", "scenario": sc.name}
        if ok:
            if sc.expected_fn is not None:
                exp = sc.expected_fn(env.orig)
                if final != exp:
                    run.violation(dict(key, state="wrong-content"), f"{label}: completed but destination content differs from the expected new content", {"argv": env.argv})
                expected_new[label] = exp
            else:
                if final is None or (sc.verify and not sc.verify(env.dest)):
                    run.violation(dict(key, state="unverifiable"), f"{label}: completed but the destination does not verify", {"argv": env.argv})
                expected_new[label] = final
        else:
            if final != env.old:
                run.violation(dict(key, state="dest-changed-on-error"), f"{label}: handled error but destination changed", {"argv": env.argv})
        if not sc.same and read(env.inp) != env.orig:
            run.violation(dict(key, state="input-modified"), f"{label}: input file modified", {"argv": env.argv})
        if env.temps():
            run.violation(dict(key, state="temp-left"), f"{label}: temporary files left after exit {r.returncode}: {env.temps()}", {"argv": env.argv})
        return evs, calls
    finally:
        env.close()


def crash_points(calls, evs):
    """(syscall name, k) pairs: k-th call of that name in its thread, for every output-phase call."""
    ev_raw = {(e["pid"], e["sys"]) for e in evs}
    count = {}
    pts = []
    for c in calls:
        key = (c["pid"], c["name"])
        count[key] = count.get(key, 0) + 1
        if (c["pid"], c["raw"][:160]) in ev_raw:
            pts.append((c["name"], count[key]))
    # de-duplicate, keep order
    seen, out = set(), []
    for p in pts:
        if p not in seen:
            seen.add(p)
            out.append(p)
    return out


def crash_run(run, sc, dest_existed, point, new_content_ref, hit):
    env = Env(sc, dest_existed)
    label = f"{sc.name}/{'existing' if dest_existed else 'absent'}"
    try:
        r = stracefs.run_strace(env.argv, env.log, cwd=env.dir, inject=point)
        calls, killed = stracefs.parse(env.log)
        evs = stracefs.events(calls, env.dest, None if sc.same else env.inp)
        run.cov["evaluations"] += 1
        if not killed:
            return
        boundary = len(evs)
        hit.add((label, boundary))
        final = read(env.dest)
        key = {"engine": "outputfs-crash", "scenario": sc.name}
        rep = {"argv": env.argv, "inject": point, "boundary": boundary, "last_calls": [e["sys"] for e in evs[-4:]]}
        if final is None:
            if env.old is not None:
                run.violation(dict(key, state="dest-missing"), f"{label}: killed at {point} after {boundary} output calls: destination is gone, it existed before", rep)
        elif final == env.old:
            pass
        else:
            good = (new_content_ref is not None and final == new_content_ref)
            if not good and sc.verify and sc.expected_fn is None:
                # a signature made at another moment differs in content and, when the RSA value happens to start with a zero
                # byte (1 run in 256), by a few bytes in armoured length
                good = sc.verify(env.dest) and new_content_ref is not None and abs(len(final) - len(new_content_ref)) <= 16
            if not good:
                run.violation(dict(key, state="dest-torn"), f"{label}: killed at {point} after {boundary} output calls: destination is neither old nor complete new content ({len(final)} bytes)", rep)
        if not sc.same and read(env.inp) != env.orig:
            run.violation(dict(key, state="input-modified"), f"{label}: killed at {point}: input modified", rep)
    finally:
        env.close()


def validate(run, traces):
    """validate concatenated traces; on a rejection record it, drop that segment, continue with the rest"""
    remaining = list(traces)
    validated = 0
    while remaining:
        lines = [e for _, _, tr in remaining for e in tr]
        ok, consumed, total, res = validate_trace("OutputFS_Trace", "OutputFS_Trace.cfg", lines, timeout=300)
        run.add_tlc(res, f"trace validation of {len(remaining)} runs")
        if ok:
            validated += len(remaining)
            break
        if not res.violated:
            log(res.out[-3000:])
            raise NoVerdict("trace spec did not consume the whole trace although no invariant failed (trace format?)")
        ls = re.findall(r"/\\ l = (\d+)", res.out)
        if not ls:
            raise NoVerdict("cannot locate the failing event")
        idx = int(ls[-1]) - 2   # 0-based index of the event whose post-state violates
        pos = 0
        for n, (label, sc, tr) in enumerate(remaining):
            if idx < pos + len(tr):
                e = tr[idx - pos]
                what = "modify-after-publish" if e["ev"] == "modify" and e["path"] == "dest" else e["ev"] + "-" + e["path"]
                run.violation({"engine": "outputfs-trace", "scenario": sc.name, "invariant": res.violated, "event": what},
                              f"{label}: {res.violated} violated after system call #{idx - pos}: {e['sys']}  "
                              f"(a crash right after this call leaves a state the property forbids)",
                              {"trace": tr[: idx - pos + 1]})
                validated += n
                remaining = remaining[n + 1:]
                break
            pos += len(tr)
        else:
            raise NoVerdict("failing index outside trace")
    return validated


def run(t):
    run = Run("C13", "model_checking", t)
    vh = build_vh()
    relic = build_relic(tags="")
    for de in ("TRUE", "FALSE"):
        r = run_tlc("OutputFS_MC", f"OutputFS_MC_{de}.cfg", timeout=300, want_beh=False, workers=4, coverage=True)
        tlc_must_pass(r, "OutputFS_MC_" + de)
        check_coverage(r, ["CreateTmp", "WriteTmp", "Chmod", "CloseTmp", "Rename", "ErrorPath", "Crash"], "OutputFS_MC")
        run.add_tlc(r, "mc destExisted=" + de)
    for v in NEG:
        tlc_must_fail(run_tlc("OutputFS_MC", f"OutputFS_Neg_{v}.cfg", timeout=300, want_beh=False, workers=2), v)
    run.cov["negative_controls"] = NEG
    traces, expected_new, points = [], {}, {}
    scs = scenarios(vh, relic, t)
    for sc in scs:
        for de in ([True] if sc.same else [True, False]):
            evs, calls = baseline(run, sc, de, traces, expected_new)
            if evs is None:
                continue
            points[(sc.name, de)] = (crash_points(calls, evs), len(evs))
    nvalid = validate(run, traces)
    run.cov["traces_validated_against_impl"] = nvalid
    run.cov["trace_events"] = sum(len(tr) for _, _, tr in traces)
    run.sample({"scenario": traces[0][0], "events": [{k: e[k] for k in ("ev", "path", "path2", "sys")} for e in traces[0][2][:12]]})
    # real crashes
    rnd = random.Random(seed())
    hit, total = set(), 0
    for sc in scs:
        if sc.expect_fail:
            continue
        for de in ([True] if sc.same else [True, False]):
            pts, nev = points[(sc.name, de)]
            total += nev
            label = f"{sc.name}/{'existing' if de else 'absent'}"
            sel = pts
            if t == "quick" and sc.kind == "binary":
                # always the commit-critical calls, plus a seeded sample of the data writes
                crit = [p for p in pts if p[0] in ("renameat", "renameat2", "unlinkat", "fchmod", "close", "ftruncate")]
                rest = [p for p in pts if p not in crit]
                rnd.shuffle(rest)
                sel = crit + rest[:4]
            if t == "quick" and len(sel) > 40:
                sel = sel[:20] + rnd.sample(sel[20:], 20)
            for p in sel:
                crash_run(run, sc, de, p, expected_new.get(label), hit)
    run.cov["crash_boundaries_hit"] = len(hit)
    run.cov["crash_boundaries_total"] = total
    run.cov["distinct_nontrivial"] = len(hit) + nvalid
    run.cov["rule"] = ("scenarios = output strategies (whole-file, patch-by-rewrite other/same path, MSI copy-then-edit, PGP merge, "
                       "handled errors) x destination existing/absent, each run for real under strace; every recorded system call "
                       "on dest/input/temp paths is one event validated by OutputFS_Trace with the atomicity invariants evaluated "
                       "after each; plus SIGKILL injected on entry of output-phase system calls (distinct = distinct (scenario, "
                       "boundary) actually hit, learned from strace's own log)")
    run.assumptions += ["strace reports system calls faithfully and in completion order",
                        "a crash between system calls leaves exactly the file-system state after the last completed call (no power-loss/fsync semantics)",
                        "for real-binary scenarios whose output is not deterministic, 'complete new content' = relic verify accepts and the size is within 16 bytes of the un-faulted run's (an RSA signature value is one byte shorter in 1 run of 256)"]
    return run.finish()


def replay(path):
    obj = json.load(open(path))
    print(json.dumps(obj, indent=1)[:4000])
    print("re-run: ./check C13  (crash points are re-derived from the current tree)")
    return 0
