"""C05 — signatures are accepted by each ecosystem's reference verifier.
Binding (A): every successful SignPipeline case is additionally handed to independent implementations:
jarsigner -verify and openssl cms -verify (jar), gpgv (detached, clearsign, deb _gpg member), dpkg-deb (deb), and
specification-derived reference computations written for the harness: Authenticode PE image hash, PE checksum,
PowerShell script digest, each compared with the value inside relic's signature (read by the harness's DER walker)."""
from vlib.common import *
from vlib import pipeline


def run(t):
    run = Run("C05", "model_checking", t)
    vh = build_vh()
    pipeline.model_check(run, quick_negs=["WrongDigestNamed"])
    cases = [c for c in pipeline.gen_cases(run, "SignPipeline_Gen1.cfg")
             if c["type"] in ("jar", "pe-dll", "pe-exe", "ps1", "ps1xml", "mof", "deb", "pgp-detached", "pgp-clearsign", "pgp-inline")]
    c = pipeline.replay(run, vh, cases, "C05", external=True, shards=8)
    ext = {k: v for k, v in c.items() if k.startswith("ext_")}
    if sum(ext.values()) < 200:
        raise NoVerdict(f"too few external verifications ran: {ext}")
    # XML-DSig and RSA-PSS CMS against the JDK validator and openssl
    import os, shutil
    from checks.C15 import _absorb
    from checks.C19 import _java_ready
    _java_ready()
    d = scratch("c05x")
    try:
        o = parse_vh_json(run_vh(vh, ["xml-signed", "2"], env={"VERIF_TMP": d, "VERIF_JAVA_CP": os.path.join(VERIF, "build", "java")}, timeout=1800), "xml-signed")
        o["failures"] = [f for f in o["failures"] if f["key"].get("kind") == "jdk-rejects-relic-output"]
        if o["counters"].get("jdk_judged", 0) < 20 and not o["failures"]:
            raise NoVerdict(f"JDK validator judged only {o['counters'].get('jdk_judged')} documents")
        _absorb(run, o)
        ext["ext_jdk_xmldsig"] = o["counters"].get("jdk_judged", 0)
        o = parse_vh_json(run_vh(vh, ["cms-pss"], env={"VERIF_TMP": d}, timeout=600), "cms-pss")
        _absorb(run, o)
        ext["ext_openssl_cms_pss"] = o["counters"].get("pss_signatures", 0)
    finally:
        shutil.rmtree(d, ignore_errors=True)
    run.cov["external_verifications"] = ext
    run.cov["rule"] = (f"{len(cases)} cases (types with a reference verifier in the sandbox x keys x digests x modes); "
                       "jarsigner is skipped for MD5/SHA-1 jars (disabled by JDK policy). non-trivial = signing succeeded")
    run.assumptions += ["no independent verifier exists here for rpm, appx, mach-o/dmg/pkg, cab, cat, msi, apk v2: not covered by this check",
                        "XML-DSig canonical-form laws are C19's; here only: the JDK validator accepts what relic wrote (ClickOnce SHA-1, VSIX), and openssl accepts RSA-PSS CMS from relic's builder"]
    return run.finish()


def replay(path):
    import json
    print(json.dumps(json.load(open(path)), indent=1)[:3000]); print("re-run: ./check C05"); return 0
