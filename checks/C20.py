"""C20 — health reporting follows token state with hysteresis.
TLC: spec/Health.tla (Counter, HealthyIff, OneSuccessRestores, NoCheckAfterExit, closed ~> exited) + negative
controls; binding (A): every generated behaviour replayed on a real server.Server with scripted fake
tokens (real healthCheck, real /health handler); plus a hook-free real-time run of the loop."""
import json, os, subprocess, concurrent.futures as cf
from vlib.common import *

NEG = [("NoExit", None), ("CloseStopsOnTokenError", None), ("BelowZero", None), ("NoReset", None), ("StaleGE", None), ("IgnoreDisabled", None),
       ("OffByOne", None), ("AnyTokenOk", None), ("StampOnSuccessOnly", None)]


def _replay(run, vh, behs, label, shards=NCPU):
    d = scratch("c20")
    try:
        p = os.path.join(d, "beh.jsonl")
        with open(p, "w") as f:
            for b in behs:
                f.write(json.dumps(b) + "\n")
        shards = max(1, min(shards, len(behs)))
        with cf.ThreadPoolExecutor(shards) as ex:
            futs = [ex.submit(run_vh, vh, ["replay-health", p, str(i), str(shards)], None, 3000, {"VERIF_TMP": d}) for i in range(shards)]
            outs = [parse_vh_json(f.result(), label) for f in futs]
    finally:
        shutil.rmtree(d, ignore_errors=True)
    got = sum(o["extra"]["behaviours_read"] for o in outs)
    nfail = sum(len(o["failures"]) for o in outs)
    if got != len(behs) and nfail == 0:
        raise NoVerdict(f"{label}: replayed {got} of {len(behs)} behaviours")
    for o in outs:
        run.cov["evaluations"] += o["evaluations"]
        run.cov["distinct_nontrivial"] += o["distinct_nontrivial"]
        run.cov["traces_validated_against_impl"] += o["evaluations"]
        for s in o["samples"][:1]:
            run.sample(s)
        for f in o["failures"]:
            run.violation(f["key"], f["desc"], f["replay"])


def run(t):
    run = Run("C20", "model_checking", t)
    vh = build_vh()
    for cfg in ("Health_MC.cfg", "Health_MC_Disabled.cfg", "Health_Live.cfg"):
        r = run_tlc("Health_MC", cfg, timeout=600, want_beh=False, workers=8)
        tlc_must_pass(r, cfg)
        run.add_tlc(r, cfg)
    for v, _ in NEG:
        tlc_must_fail(run_tlc("Health_MC", f"Health_Neg_{v}.cfg", timeout=300, want_beh=False, workers=4), v)
    run.cov["negative_controls"] = [v for v, _ in NEG]
    # real-time, hook-free run of the background loop in parallel with the replays
    rt = subprocess.Popen([vh, "health-realtime"], stdout=subprocess.PIPE, stderr=subprocess.PIPE)
    cfgs = [f"Health_Gen_{i}.cfg" for i in range(1, 7)] + ["Health_Gen_Stale.cfg"]   # Stale: 9 steps, enough Ticks to pass the staleness bound
    if t == "thorough":
        cfgs.append("Health_Gen_Deep.cfg")
    for cfg in cfgs:
        g = run_tlc("Health_Gen", cfg, timeout=1200, workers=8)
        tlc_must_pass(g, cfg)
        run.add_tlc(g, cfg)
        if not g.beh:
            raise NoVerdict(cfg + ": no behaviours")
        if cfg == "Health_Gen_Stale.cfg" and not any(sum(1 for st in b["steps"] if st["a"] == "Tick") >= 7 for b in g.beh):
            raise NoVerdict("no generated behaviour reaches staleness")
        _replay(run, vh, g.beh, cfg)
    # failing checks between long quiet stretches (8 steps, N = 2): a failed check is a completed check and restarts the
    # staleness clock. Quick replays the behaviours that have both a failing check and five or more Ticks, thorough all.
    g = run_tlc("Health_Gen", "Health_Gen_StaleErr.cfg", timeout=1200, workers=8)
    tlc_must_pass(g, "StaleErr")
    run.add_tlc(g, "Health_Gen_StaleErr.cfg")
    behs = g.beh
    if t == "quick":
        behs = [b for b in behs if sum(1 for st in b["steps"] if st["a"] == "Tick") >= 5
                and any(st["a"] == "Check" and "err" in st["o"].values() for st in b["steps"])]
    if not any(any(st["a"] == "Check" and "err" in st["o"].values() for st in b["steps"][:k]) and
               sum(1 for st in b["steps"][:k] if st["a"] == "Tick") >= 7 and b["steps"][k - 1]["h"]
               for b in behs for k in range(1, len(b["steps"]) + 1)):
        raise NoVerdict("StaleErr: no behaviour stays healthy through seven Ticks and a failing check")
    _replay(run, vh, behs, "StaleErr")
    g = run_tlc("Health_Gen", "Health_Gen_T2.cfg", timeout=600, workers=8)
    tlc_must_pass(g, "T2")
    run.add_tlc(g, "Health_Gen_T2.cfg")
    behs = g.beh
    if t == "quick":
        rnd = random.Random(seed())
        rnd.shuffle(behs)
        behs = behs[:128]
    _replay(run, vh, behs, "T2")
    out, err = rt.communicate(timeout=120)
    class R: pass
    rr = R(); rr.returncode, rr.stdout, rr.stderr = rt.returncode, out, err
    o = parse_vh_json(rr, "health-realtime")
    run.cov["evaluations"] += o["evaluations"]
    run.cov["realtime"] = o["extra"]
    for f in o["failures"]:
        run.violation(f["key"], f["desc"], f["replay"])
    run.cov["rule"] = ("every action sequence (Check with per-token outcomes ok/err[/timeout], Tick of half an interval, Close) of "
                       "length 6 (8 for N = 2 with failing checks between long quiet stretches; 9 in thorough) for N in 1..3 x disabled, enumerated exhaustively by TLC and replayed on a real "
                       "server.Server: real healthCheck via hook, /health through the real handler compared with the spec's Healthy "
                       "and counter after every step, goroutine exit watched after Close; two-token/timeout behaviours of length 3 "
                       "(seeded sample in quick); non-trivial = contains at least one Check")
    run.cov["exhaustive"] = True
    run.assumptions += ["Tick is simulated by ageing healthLastPing through a verif hook (interval 3600 s)",
                        "timeouts use tokenchecktimeout=1 s"]
    return run.finish()


def replay(path):
    vh = build_vh()
    obj = json.load(open(path))
    run = Run("C20", "model_checking", "quick")
    if obj.get("replay"):
        _replay(run, vh, [obj["replay"]], "replay", shards=1)
    for _, desc, _ in run.violations:
        print(desc)
    return 1 if run.violations else 0
