"""X04 (extension, outside the twenty listed properties) - the life of the token worker processes.
TLC: spec/WorkerLife.tla (monitor's spawning, login of every new worker with the configured PIN, serving, fatal token
errors / failing health check -> drain and exit, kill, PIN changed on the token, Close): LiveBounded, BornInOrder,
CloseDrains, NoSpawnWhileClosing, liveness Replaced and AllGoneAfterClose; negative control SpawnWhileClosing; the
FINDING NoLockout fails for the design as coded (WorkerLife_Finding_Lockout.cfg) and holds with StopOnPinReject.
Binding (B): nine scenarios with relic's real parent side (token/worker.New / monitor / Close, real retry client) and
real worker processes (the harness binary re-executed as `worker`, running cmdline/workercmd) on the PKCS#11 wire module
+ token model, which tags every call with the process that made it; the harness injects token errors, a failing health
check, kill -9, a PIN change, a slow signature with Close in flight, Close at many distances from a kill, a sibling accepting connections while a
slow successor starts. Each merged event log is validated by
trace/WorkerLife_Trace; every request's result is checked (signature verified, refusal not retried, loss of a worker
survived by a retry). Finally the whole server runs on worker-backed tokens under concurrent signing requests with a
fatal token error and a killed worker in the middle (race build; SignServer_Trace)."""
import json, os
from vlib.common import *
from checks.C15 import _absorb
from checks.C06 import validate_signserver
from checks.C14 import race_run_seeded, window

BASE = [("steady", 1), ("two-workers", 2), ("fatal-error", 1), ("refused", 1), ("health-check", 1), ("kill", 1), ("close-in-flight", 1),
        ("sign-options", 1), ("wrong-pin-at-start", 1), ("respawn-slow-start", 2), ("respawn-under-load", 2), ("pin-changed", 1)]


def scenarios(reps):
    return BASE + [(f"close-during-respawn-{k:02d}", 1) for k in range(reps)]


def _cfg(target, extra=""):
    return (f'CONSTANTS Target = {target}  MaxSpawns = 12  MaxSigns = 1000000  Tries0 = 3  Variant = "code"\nSPECIFICATION TraceSpec\n'
            f'INVARIANTS TypeOK LiveBounded BornInOrder CloseDrains{extra}\nPROPERTIES NoSpawnWhileClosing\nPOSTCONDITION TraceAccepted\nCHECK_DEADLOCK FALSE\n')


def run(t):
    run = Run("X04", "model_checking", t)
    vh = build_vh()
    so = build_p11so()
    r = run_tlc("WorkerLife_MC", "WorkerLife_MC.cfg", timeout=900, want_beh=False)
    tlc_must_pass(r, "WorkerLife_MC")
    run.add_tlc(r, "WorkerLife mc (2 workers wanted, <=4 processes, <=3 sign calls, retry counter 3; liveness Replaced, AllGoneAfterClose)")
    tlc_must_fail(run_tlc("WorkerLife_MC", "WorkerLife_Neg_SpawnWhileClosing.cfg", timeout=300, want_beh=False, workers=4), "SpawnWhileClosing", expect="NoSpawnWhileClosing")
    # the finding on the design itself: the code's respawn rule admits a lock-out, the repaired rule does not
    tlc_must_fail(run_tlc("WorkerLife_MC", "WorkerLife_Finding_Lockout.cfg", timeout=300, want_beh=False, workers=4), "Finding_Lockout (design as coded)", expect="NoLockout")
    r = run_tlc("WorkerLife_MC", "WorkerLife_Fixed_Lockout.cfg", timeout=300, want_beh=False, workers=4)
    tlc_must_pass(r, "WorkerLife_Fixed_Lockout")
    run.cov["negative_controls"] = ["SpawnWhileClosing", "design-as-coded violates NoLockout", "StopOnPinReject restores NoLockout"]
    resp = 6 if t == "quick" else 24
    SCENARIOS = scenarios(resp)
    d = scratch("x04")
    try:
        reps = 1 if t == "quick" else 3
        total_events = 0
        for rep in range(reps):
            od = os.path.join(d, f"run{rep}")
            os.makedirs(od)
            o = parse_vh_json(run_vh(vh, ["worker-life", od], env={"VERIF_TMP": d, "VERIF_P11_SO": so, "VERIF_RESPAWN_REPS": str(resp)}, timeout=1500), "worker-life")
            _absorb(run, o)
            if o["counters"].get("scenarios") != len(SCENARIOS) and not run.violations:
                raise NoVerdict(f"only {o['counters'].get('scenarios')} scenarios ran")
            for sc, target in SCENARIOS:
                lines = [l for l in open(os.path.join(od, sc + ".ndjson")).read().splitlines() if l.strip()]
                total_events += len(lines)
                ok, consumed, total, resd = validate_trace("WorkerLife_Trace", "wl.cfg", lines, timeout=600, dfs=False, extra_files={"wl.cfg": _cfg(target)})
                run.cov["traces_validated_against_impl"] += 1
                if rep == 0 and not sc.startswith("close-during-respawn-0") or sc.endswith("-00"):
                    run.add_tlc(resd, f"WorkerLife_Trace {sc}")
                if not ok:
                    bad = lines[max(0, (consumed or 1) - 4):(consumed or 1) + 2]
                    run.violation({"engine": "worker-life", "scenario": sc, "invariant": resd.violated or "rejected"},
                                  f"scenario {sc}: the event log of the real worker processes is not a behaviour of WorkerLife ({resd.violated or 'rejected'} at event {consumed} of {total}): ...{bad}",
                                  {"scenario": sc, "lines": lines})
                    continue
                # the same log against the lock-out invariant: the open finding (and only it) may show here
                ok2, consumed2, total2, resd2 = validate_trace("WorkerLife_Trace", "wl.cfg", lines, timeout=600, dfs=False, extra_files={"wl.cfg": _cfg(target, " NoLockout")})
                if not ok2:
                    run.violation({"engine": "worker-life", "scenario": sc, "invariant": resd2.violated or "rejected"},
                                  f"scenario {sc}: automatic respawns submitted a rejected PIN until the token locked it (event {consumed2} of {total2})", {"scenario": sc, "lines": lines})
        run.cov["events_validated"] = total_events
        # the whole server on worker-backed tokens (race build): real signing requests from 8 clients through relic's
        # HTTP handler -> worker client -> worker processes -> PKCS#11 wire module -> token model, with a fatal token
        # error after a third of the requests and kill -9 of a worker after two thirds. Nothing may be lost, every
        # response is verified by its client, the server's event trace must be a behaviour of SignServer
        vhr = build_vh(race=True)
        for k in range(1 if t == "quick" else 4):
            o, data = race_run_seeded(run, vhr, ["-p11", "-faults", "-n", "120" if t == "quick" else "400", "-c", "8"], f"server-on-workers-{k}", d, True, seed() * 100 + k)
            if o is None:
                continue
            _absorb(run, o)
            if o["counters"].get("fault_device_removed", 0) + o["counters"].get("fault_worker_killed", 0) < 2 and not run.violations:
                raise NoVerdict(f"server-on-workers: faults were not injected ({o['counters']})")
            run.cov.setdefault("server_on_workers", []).append({kk: o["extra"].get(kk) for kk in ("ok", "failed", "verified", "worker_processes", "worker_logins")})
            lines = data[0]
            if len(lines) > 1400:
                lines = window(lines, 200)
            validate_signserver(run, lines, f"server-on-workers-{k}")
    finally:
        shutil.rmtree(d, ignore_errors=True)
    run.cov["rule"] = (f"{len(SCENARIOS)} scenario runs x {reps} with the real token/worker parent and real worker processes: steady signing; two workers under parallel requests; the caller's signing options across the process boundary (PKCS#1 v1.5, PSS with salt = hash / maximal / 20 / 64, ECDSA, options without a digest algorithm: the mechanism and parameters the token model sees, the signature under the caller's options) and a key object that outlives the replacement of its key on the token (it must not sign with the newcomer); "
                       "a fatal token error (CKR_DEVICE_REMOVED) during a signature -> the worker leaves, the request is retried on its successor; a non-fatal token error -> "
                       "reported at once, not retried, the worker stays; a failing health check; kill -9 with a request issued into the gap; Close while the token is busy "
                       "with a signature; a wrong PIN at start; the PIN changed on the token followed by the loss of the worker. Every event log validated against the "
                       "specification (workers numbered by the order in which they reach the token); every request's result checked. non-trivial = all")
    run.cov["exhaustive"] = False
    run.assumptions += ["process identity is the connection to the token model (one per worker process)",
                        "a successor that is slow to start is simulated by a sleep in the harness's own `worker` wrapper before relic's worker command runs (it widens the "
                        "interval between the parent's exec and the child taking over the listening socket; it does not create it)",
                        "restartDelay (10 s) and the health-check interval (1 s in the scenarios) are the code's own timers: the run takes about 45 s"]
    return run.finish()


def replay(path):
    return run("quick")
