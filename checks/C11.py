"""C11 — malformed input yields an error, never a crash or runaway resource use (structured boundary corruption only).
TLC: spec/Malformed.tla — the guarded parser step (length / offset / count / chain link x 9 boundary classes x input
remaining) never crashes, allocates at most a constant times the input and terminates; 6 negative controls (one per
guard). The same module holds the case table (12 container formats x their structural fields x classes x entry
points). Binding (A): every case is applied to a real artifact (signed and unsigned fixtures of 15 types, upload
tarballs of 5) by the harness's own field locators and the entry point runs in an isolated child process:
verify, is-signed probe, client-side transform, and the real server's /sign endpoint. Verdict per child: panic / fatal
error / out of memory / > 30 s / > 1 GiB RSS / a panic recovered by the server's middleware = violation."""
import json, os
from vlib.common import *
from checks.C15 import _absorb

NEG = [("NolengthGuard", "NeverCrash"), ("NooffsetGuard", "NeverCrash"), ("NocountGuard", "NeverCrash"), ("NolinkGuard", "NeverCrash"),
       ("NocycleGuard", "NoHang"), ("NoallocGuard", "AllocBounded")]


def _sweep(run, vh, table, every):
    d = scratch("c11")
    try:
        p = os.path.join(d, "table.json")
        json.dump(table, open(p, "w"))
        o = parse_vh_json(run_vh(vh, ["malformed-run", p, str(every)], env={"VERIF_TMP": d}, timeout=3400), "malformed-run")
    finally:
        shutil.rmtree(d, ignore_errors=True)
    _absorb(run, o)
    return o


def run(t):
    run = Run("C11", "exploration", t)
    vh = build_vh()
    r = run_tlc("Malformed_MC", "Malformed_MC.cfg", timeout=600)
    tlc_must_pass(r, "Malformed_MC")
    run.add_tlc(r, "Malformed mc (4 field kinds x 9 classes x 0..6 units remaining; liveness Terminates)")
    for v, inv in NEG:
        tlc_must_fail(run_tlc("Malformed_MC", f"Malformed_Neg_{v}.cfg", timeout=300, want_beh=False, workers=2), v, expect=inv)
    rp = run_tlc("PipeDrain_MC", "PipeDrain_MC.cfg", timeout=300, want_beh=False)
    tlc_must_pass(rp, "PipeDrain_MC")
    run.add_tlc(rp, "PipeDrain mc (producer / helper goroutine over an unbuffered pipe, failure at any chunk; liveness CallerReturns)")
    tlc_must_fail(run_tlc("PipeDrain_MC", "PipeDrain_Neg_NoDrainOnError.cfg", timeout=300, want_beh=False), "NoDrainOnError", expect="NeverStuck")
    run.cov["negative_controls"] = [v for v, _ in NEG] + ["NoDrainOnError"]
    if len(r.beh) != 1:
        raise NoVerdict(f"case table not exported ({len(r.beh)})")
    table = r.beh[0]
    o = _sweep(run, vh, table, 1)
    c = o["counters"]
    if c.get("fields_located", 0) < 200 or c.get("cases", 0) < 2000:
        if not run.violations:
            raise NoVerdict(f"sweep too small: {c}")
    run.cov["outcomes"] = {k: v for k, v in c.items() if k.startswith("outcome_")}
    run.cov["rule"] = (f"{c.get('cases')} isolated child runs (every case of the table): {c.get('fields_located')} structural fields "
                       f"located in {o['extra'].get('bases')} base artifacts (signed and unsigned fixtures of 15 package types; upload tarballs of apk/appx/msi/macho/dmg) x "
                       "classes {0, 1, v-1, v+1, file size, file size+1000, 2^(n-1)-1, 2^n-1, 2^(n-1)} x entry points {verify, is-signed probe, client transform, "
                       "server /sign with the real handler}, plus truncation at 4 points and garbling of nested compressed streams (deb control/data members, xar table "
                       "of contents: early, middle, unknown compression suffix), a harness-written ZIP64 archive, PE images under the page-hash option, and crafted cases (script signature-block lines, inconsistent appx metadata, PE headers longer than a page, code-directory page-size exponents); child under ulimit -v 2.5 GiB (a 2 GiB allocation fails deterministically), 30 s wall clock; "
                       "the server's access log distinguishes a recovered panic from an ordinary 500")
    run.cov["exhaustive"] = False
    run.assumptions += ["structured boundary corruption of known fields only: nothing is claimed about arbitrary byte strings (no coverage-guided mutation in this family)",
                        "one field at a time; values written as the field's own integer width/endianness; ASCII size fields of ar and tar as decimal/octal text",
                        "text formats (manifests, PGP) and nested CMS inside containers are not corrupted here; of the script family only the signature block (seven crafted line-level variants)"]
    return run.finish()


def replay(path):
    obj = json.load(open(path))
    print(json.dumps(obj, indent=1)[:3000])
    print("re-run: ./check C11 --tier thorough (the case is re-derived from the table; key fields identify it)")
    return 0
