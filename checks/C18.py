"""C18 — adding a signature stream keeps the compound file valid.
Model: spec/Cfb.tla (abstract sector allocator: first-fit reuse, table growth, delete, replace; ChainsSound,
ChainsDisjoint, NoLeak; 3 negative controls) generates operation histories; spec/CfbInv.tla states container validity
([MS-CFB]: chains in bounds/acyclic/disjoint, every sector accounted for, sizes, header counts, each storage's children a
correctly ordered valid red-black tree) and StreamsPreserved. Binding (B, driven by A): every history is performed on a
real MSI with relic's lib/comdoc (+ InsertMSISignature); after each step a harness-owned CFB reader projects the file;
Cfb_Trace evaluates all invariants on every projected state; MSI digest via tar == digest of the container."""
import json, os, concurrent.futures as cf
from vlib.common import *

NEG = ["ReuseAllocated", "NoTerminate", "NoFree"]
GROWTH = [{"ops": [{"op": "add", "name": f"grow{i:02d}", "size": ["mini", "cutoff+1", "cutoff-1", "big"][i % 4]} for i in range(11)]},
          {"ops": [{"op": "add", "name": f"Mixed{chr(65 + i)}{'x' if i % 2 else 'X'}", "size": "mini"} for i in range(9)]
                  + [{"op": "delete", "name": "MixedAX", "size": ""}, {"op": "add", "name": "mixedbx", "size": "big"}]}]


FIXTURES = ["/repo/functest/packages/dummy.msi", "synth:512:mixed", "synth:512:nomini", "synth:512:fulldir", "synth:512:gaps",
            "synth:4096:mixed", "synth:4096:nomini", "synth:512:nested", "synth:4096:nested"]


def one_shard(vh, behs, d, i, fixture=FIXTURES[0]):
    p = os.path.join(d, f"beh{i}.jsonl")
    tr = os.path.join(d, f"trace{i}.ndjson")
    with open(p, "w") as f:
        for b in behs:
            f.write(json.dumps(b) + "\n")
    o = parse_vh_json(run_vh(vh, ["cfb-history", p, tr, fixture], env={"VERIF_TMP": d}, timeout=3000), "cfb " + fixture)
    if o["extra"].get("behaviours_read") != len(behs):
        raise NoVerdict(f"cfb-history {fixture}: read {o['extra']} of {len(behs)}")
    for f_ in o["failures"]:
        f_["key"] = dict(f_["key"], fixture=os.path.basename(fixture))
    lines = [l for l in open(tr).read().splitlines() if l.strip()]
    return o, lines


def run(t):
    run = Run("C18", "model_checking", t)
    vh = build_vh()
    r = run_tlc("Cfb_MC", "Cfb_MC.cfg", timeout=900, want_beh=False)
    tlc_must_pass(r, "Cfb_MC")
    run.add_tlc(r, "Cfb allocator mc (4 ops)")
    for v in NEG:
        tlc_must_fail(run_tlc("Cfb_MC", f"Cfb_Neg_{v}.cfg", timeout=300, want_beh=False, workers=4), v)
    run.cov["negative_controls"] = NEG
    g = run_tlc("Cfb_MC", "Cfb_Gen.cfg" if t == "quick" else "Cfb_GenDeep.cfg", timeout=1800, heap="16g")
    tlc_must_pass(g, "Cfb gen")
    run.add_tlc(g, "Cfb gen")
    behs = g.beh
    rnd = random.Random(seed())
    rnd.shuffle(behs)
    nsyn = 40 if t == "quick" else 600
    syn = behs[-nsyn:] + GROWTH          # histories run on every synthesised input as well
    behs = behs[: (240 if t == "quick" else 4000)] + GROWTH
    d = scratch("c18")
    try:
        shards = 8
        parts = [(behs[i::shards], FIXTURES[0]) for i in range(shards)] + [(syn, fx) for fx in FIXTURES[1:]]
        with cf.ThreadPoolExecutor(14) as ex:
            results = list(ex.map(lambda iv: one_shard(vh, iv[1][0], d, iv[0], iv[1][1]), enumerate(parts)))
        # DIFAT region: 512-byte-sector files grown through 109->110 and 236->237 FAT sectors (first and second DIFAT sector),
        # produced by comdoc itself (c:) and by the harness writer (w:)
        dtr = os.path.join(d, "difat.ndjson")
        od = parse_vh_json(run_vh(vh, ["cfb-difat", dtr, "c:110", "w:110", "c:237", "w:237"] + (["c:364", "w:364"] if t != "quick" else []),
                                  env={"VERIF_TMP": d}, timeout=3000), "cfb-difat")
        dl = [l for l in open(dtr).read().splitlines() if l.strip()]
        for f_ in od["failures"]:
            run.violation(dict(f_["key"], fixture="synth-512-large"), f_["desc"], f_["replay"])
        run.cov["evaluations"] += od["evaluations"]
        run.cov["distinct_nontrivial"] += od["distinct_nontrivial"]
        cross = {k: v for k, v in od["counters"].items() if k.startswith("fat_")}
        if not od["failures"] and not any("dif_0_to_1" in k for k in cross) or (not od["failures"] and not any("dif_1_to_2" in k for k in cross)):
            raise NoVerdict(f"DIFAT growth not reached: {od['counters']}")
        run.cov["difat_crossings"] = cross
        if dl:
            ok, consumed, total, resd = validate_trace("CfbTables_Trace", "CfbTables_Trace.cfg", dl, timeout=900, dfs=False)
            run.add_tlc(resd, "table-summary trace of large files")
            if ok:
                run.cov["traces_validated_against_impl"] += total
            else:
                st = json.loads(dl[min(consumed or 1, len(dl) - 1)])
                run.violation({"engine": "cfb-trace", "invariant": resd.violated or "Monotone", "fixture": "synth-512-large"},
                              f"large file after step '{st.get('step')}' ({st.get('nfat')} FAT / {st.get('ndif')} DIFAT sectors): table accounting "
                              f"violates {resd.violated or 'Monotone'}", {"step": st.get("step"), "nfat": st.get("nfat"), "ndif": st.get("ndif")})
        nstates = 0
        def validate(lines):
            return validate_trace("Cfb_Trace", "Cfb_Trace.cfg", lines, timeout=1800, dfs=False)
        with cf.ThreadPoolExecutor(shards) as ex:
            vres = list(ex.map(lambda r_: validate(r_[1]), results))
        for (o, lines), (ok, consumed, total, res) in zip(results, vres):
            run.cov["evaluations"] += o["evaluations"]
            run.cov["distinct_nontrivial"] += o["distinct_nontrivial"]
            for k, v in o["counters"].items():
                run.cov.setdefault("counters", {})[k] = run.cov.get("counters", {}).get(k, 0) + v
            for s in o["samples"][:1]:
                run.sample(s)
            for f in o["failures"]:
                run.violation(f["key"], f["desc"], f["replay"])
            run.add_tlc(res, "trace validation of projected file states")
            nstates += total
            if ok:
                run.cov["traces_validated_against_impl"] += total
            else:
                idx = (consumed or 1)
                st = json.loads(lines[min(idx, len(lines) - 1)]) if lines else {}
                what = res.violated or "StreamsPreserved/no-matching-step"
                run.violation({"engine": "cfb-trace", "invariant": what, "fixture": os.path.basename(str(st.get("fixture", "")))},
                              f"projected file state #{idx + 1} (after step '{st.get('step')}') violates {what}: the compound file relic wrote is not a valid "
                              f"container / lost a stream", {"step": st.get("step"), "touched": st.get("touched")})
    finally:
        shutil.rmtree(d, ignore_errors=True)
    run.cov["file_states_projected"] = nstates
    run.cov["rule"] = (f"histories = {len(behs)} sequences of add/replace/delete over names {{sigA, SIGb, an existing stream}} x size classes "
                       "{63, cutoff-1, cutoff, cutoff+1, 3*cutoff+17 bytes} generated by TLC from the allocator model (seeded sample in quick) plus two "
                       "growth histories (11 and 9 added streams: directory and FAT growth, mixed-case names) and a final InsertMSISignature; "
                       "inputs: functest/packages/dummy.msi (4096-byte sectors) and six files synthesised by the harness writer (512/4096-byte "
                       "sectors, with/without mini stream, full directory sector, free sectors between streams), plus 512-byte-sector files grown "
                       "through the first and second DIFAT sector (table-summary invariants in TLC, chains by the reader); after EVERY step the file is projected by an independent reader and all CfbInv "
                       "invariants + StreamsPreserved are evaluated by TLC. non-trivial = history with at least one operation")
    run.cov["exhaustive"] = False
    run.assumptions += ["nested storages (synth:*:nested: class ids, two levels, empty storages) are preserved but never modified; files beyond 109 FAT sectors are too large for CfbInv's chain walks in "
                        "TLC: their chains are validated by the harness reader and only the table accounting goes to TLC",
                        "trusted: the harness CFB writer and reader (every synthesised input satisfies all CfbInv invariants before relic touches it)", "zero-length added streams are outside the quantifier (comdoc panics on them: see DESIGN)"]
    return run.finish()


def replay(path):
    print(json.dumps(json.load(open(path)), indent=1)[:3000]); print("re-run: ./check C18"); return 0
