"""X05 (extension, outside the twenty listed properties) - a key held by a cloud key-management service (token/awstoken).
TLC: spec/CloudKey.tla (GetKey: `id` required, kms:GetPublicKey; Sign: algorithm chosen from key type, digest algorithm
and PSS option, unsupported digests refused locally, kms:Sign on a digest; the service's own rules - algorithm against key
spec, digest length - and scripted faults; the SDK's bounded retries of transient faults): NoCallWithoutId, LocalRefusal,
AlgorithmRight (per request, also for a second signature with other options on the same key object), SignatureFromService, ErrorsSurface, BoundedAttempts, TransientIsHidden, liveness Terminates; 7 negative
controls. Binding (A): every behaviour on the real aws token (AWS SDK, SigV4 and all) in front of a KMS stand-in that speaks
the service's JSON protocol and enforces its validation rules: remote calls in order (operation, algorithm, message type,
outcome), key id, digest and request signature of every call, the result; a returned signature is verified (PKCS#1 v1.5,
PSS, ECDSA) under the key; the token key as crypto.Signer for a self-signed certificate; whole packages (PowerShell script,
JAR, PE, MSI) signed with each key through the standalone signing path and accepted by relic's verifier (integrity and chain)."""
import json, os, concurrent.futures as cf
from vlib.common import *
from checks.C15 import _absorb

NEG = [("RememberAlgorithm", "AlgorithmRight"), ("Sha1AsSha256", "LocalRefusal"), ("PssIgnored", "AlgorithmRight"), ("SwallowSignError", "SignatureFromService"), ("RawMessage", "AlgorithmRight"),
       ("RetryForever", "BoundedAttempts"), ("AskWithoutId", "NoCallWithoutId")]


def run(t):
    run = Run("X05", "model_checking", t)
    vh = build_vh()
    r = run_tlc("CloudKey_MC", "CloudKey_MC.cfg", timeout=600, want_beh=False)
    tlc_must_pass(r, "CloudKey_MC")
    run.add_tlc(r, "CloudKey mc (3 key specs x id set or not x 4 digest algorithms x PSS x 7 GetPublicKey faults x 6 Sign faults; liveness Terminates)")
    for v, inv in NEG:
        tlc_must_fail(run_tlc("CloudKey_MC", f"CloudKey_Neg_{v}.cfg", timeout=300, want_beh=False, workers=1), v, expect=inv)
    run.cov["negative_controls"] = [v for v, _ in NEG]
    g = run_tlc("CloudKey_Gen", "CloudKey_Gen.cfg", timeout=600)
    tlc_must_pass(g, "CloudKey_Gen")
    run.add_tlc(g, "CloudKey gen")
    if len(g.beh) < 300:
        raise NoVerdict(f"only {len(g.beh)} CloudKey behaviours")
    reps = 1 if t == "quick" else 4     # the SDK's back-off is random: repeat the replay in the thorough tier
    d = scratch("x05")
    try:
        p = os.path.join(d, "beh.jsonl")
        with open(p, "w") as f:
            for _ in range(reps):
                for b in g.beh:
                    f.write(json.dumps(b) + "\n")
        shards = 8
        with cf.ThreadPoolExecutor(shards) as ex:
            futs = [ex.submit(run_vh, vh, ["replay-cloudkey", p, str(i), str(shards)], None, 3000, {"VERIF_TMP": d}) for i in range(shards)]
            outs = [parse_vh_json(f.result(), "replay-cloudkey") for f in futs]
    finally:
        shutil.rmtree(d, ignore_errors=True)
    for o in outs:
        _absorb(run, o)
    got = sum(o["extra"].get("behaviours_read", 0) for o in outs)
    if got != reps * len(g.beh) and not run.violations:
        raise NoVerdict(f"replayed {got} of {reps * len(g.beh)}")
    sigs = sum(o["counters"].get("result_signature", 0) for o in outs)
    x509 = sum(o["counters"].get("x509_selfsigned", 0) for o in outs)
    pkgs = sum(o["counters"].get("packages_verified", 0) for o in outs)
    if (sigs < 20 or x509 != 3 or pkgs != 12) and not run.violations:
        raise NoVerdict(f"signatures verified: {sigs}, self-signed certificates: {x509}, packages: {pkgs}")
    run.cov["packages_verified"] = pkgs
    run.cov["signatures_verified"] = sigs
    run.cov["rule"] = (f"all {len(g.beh)} complete behaviours of CloudKey_Gen (x{reps}) on the real aws token: key spec {{RSA_2048, ECC_NIST_P256, ECC_NIST_P384}} x key entry with / without id x "
                       "digest {SHA-1, SHA-256, SHA-384, SHA-512} x PSS (RSA) x fault of GetPublicKey {none, denied, not found, garbage public key, throttled once, internal error once, "
                       "always throttled} or of Sign {none, denied, key unavailable, throttled once, internal error once, always throttled}, and - fault-free - a second signature with another digest algorithm or padding on the same key object; compared: the service's call log "
                       "(operation, signing algorithm, message type, outcome, key id, digest bytes, SigV4 header), the result, signature verification under the service's key; "
                       "whole packages (ps1, jar, PE, MSI) signed with each of the three keys and judged by relic's verifier; non-trivial = more than one remote call")
    run.cov["exhaustive"] = True
    run.assumptions += ["the service is a stand-in (harness/internal/fakekms) implementing GetPublicKey and Sign with the documented validation rules; IAM, grants, key states other than 'unavailable', multi-region keys are not modelled",
                        "the retry policy (3 attempts, which exceptions are transient) is the AWS SDK's default as cached in the module cache; the back-off delays are the SDK's own (random), not controlled",
                        "the Google and Azure tokens have the same shape (gcloudtoken: gRPC; azuretoken: challenge-based bearer authentication over HTTPS); no stand-in could be put in front of them offline, they are not covered",
                        "observed, modelled as implemented: the token does not check the digest algorithm against the curve - a P-384 key asked for a SHA-256 signature is refused by the service (InvalidKeyUsageException), not locally"]
    return run.finish()


def replay(path):
    return run("quick")
