"""X03 (extension, outside the twenty listed properties) - the PKCS#11 token, call by call.
TLC: spec/P11Session.tla (Open: slot selection by label / serial, C_OpenSession, login state, token.Login over C_Login;
GetKey: object lookup and public-key attributes; Sign: CKM_RSA_PKCS / CKM_RSA_PKCS_PSS / CKM_ECDSA; key generation,
key import, certificate import; Close; the library's answers are knobs) over spec/P11Proto.tla (Cryptoki discipline
predicates on a call transcript): OneOperationAtATime, SignOnlyAfterInit, FindBracketed, NoUseAfterClose,
SessionsClosed, PinOnlyToSelectedToken, LoginSubmissionsBacked, LockedNotHammered, OpenFirst, NoOrphanKey, CertOnce,
liveness Terminates; negative controls SwallowSlotListError, RetrySamePin, LeaveOrphan. Concurrent signers: ScdPair.
Binding (A): every behaviour replayed with the real p11token against harness/fakep11c/shim.c - a PKCS#11 module that
forwards each Cryptoki call over a socket to the harness-owned token model (sessions, login state with retry counter,
objects, active operations, real RSA / ECDSA signatures): call transcript, prompts, outcome class of every call, objects
left on the token, sessions left open; signatures verified (PKCS#1 v1.5, PSS, ECDSA DER). Binding (B): recorded
transcripts validated by trace/P11Proto_Trace; the merged event log of concurrent signers on one session validated by
trace/P11Pair_Trace."""
import json, os, concurrent.futures as cf
from vlib.common import *
from checks.C15 import _absorb

NEG = [("SwallowSlotListError", "PinOnlyToSelectedToken"), ("RetrySamePin", "LoginSubmissionsBacked"), ("LeaveOrphan", "NoOrphanKey"), ("WrapResultLost", "NoOrphanKey")]


def _shard(vh, so, behs, i, d):
    p = os.path.join(d, f"beh{i}.jsonl")
    tr = os.path.join(d, f"tr{i}.ndjson")
    with open(p, "w") as f:
        for b in behs:
            f.write(json.dumps(b) + "\n")
    o = parse_vh_json(run_vh(vh, ["p11-replay", p, tr], env={"VERIF_TMP": d, "VERIF_P11_SO": so}, timeout=3000), f"p11-replay {i}")
    if o["extra"].get("behaviours_read") != len(behs):
        raise NoVerdict(f"p11-replay {i}: read {o['extra']} of {len(behs)}")
    return o, [l for l in open(tr).read().splitlines() if l.strip()]


def whole_sessions(tl, limit):
    """a prefix of the recorded lines that ends at a session boundary"""
    out, cur = [], []
    for l in tl + ['{"reset-sentinel":1}']:
        if '"reset' in l:
            if len(out) + len(cur) > limit:
                break
            out += cur
            cur = []
        if "sentinel" not in l:
            cur.append(l)
    return out


def run(t):
    run = Run("X03", "model_checking", t)
    vh = build_vh()
    so = build_p11so()
    deep = t != "quick"
    r = run_tlc("P11Session_MC", "P11Session_MC.cfg", timeout=900, want_beh=False)
    tlc_must_pass(r, "P11Session_MC")
    run.add_tlc(r, "P11Session mc (slot, login, key, sign and management families; liveness Terminates)")
    for v, inv in NEG:
        tlc_must_fail(run_tlc("P11Session_MC", f"P11Session_Neg_{v}.cfg", timeout=300, want_beh=False, workers=4), v, expect=inv)
    run.cov["negative_controls"] = [v for v, _ in NEG]
    cfg = "P11Session_GenDeep.cfg" if deep else "P11Session_Gen.cfg"
    g = run_tlc("P11Session_Gen", cfg, timeout=3000, heap="24g")
    tlc_must_pass(g, cfg)
    run.add_tlc(g, cfg)
    behs = g.beh
    if len(behs) < 1000:
        raise NoVerdict(f"only {len(behs)} P11Session behaviours")
    random.Random(seed()).shuffle(behs)
    shards = 8
    d = scratch("x03")
    try:
        with cf.ThreadPoolExecutor(shards) as ex:
            outs = list(ex.map(lambda i: _shard(vh, so, behs[i::shards], i, d), range(shards)))
        opens, lines = {}, []
        for o, tl in outs:
            _absorb(run, o)
            for k, v in o["counters"].items():
                if k.startswith("open_"):
                    opens[k] = opens.get(k, 0) + v
            lines += whole_sessions(tl, 1200)
        if len(opens) < 10 and not run.violations:
            raise NoVerdict(f"outcome coverage {opens}")
        run.cov["open_outcomes"] = opens
        ok, consumed, total, resd = validate_trace("P11Proto_Trace", "P11Proto_Trace.cfg", lines, timeout=900, dfs=False)
        run.add_tlc(resd, "P11Proto_Trace")
        if not ok:
            bad = lines[max(0, (consumed or 1) - 6):(consumed or 1) + 1]
            run.violation({"engine": "p11-trace", "invariant": resd.violated or "rejected"},
                          f"a call transcript recorded from the real PKCS#11 token violates {resd.violated or 'the Cryptoki discipline'} at line {consumed} of {total}: ...{bad}", {"lines": bad})
        nr = 30 if deep else 10
        for race in (False, True):
            pv = build_vh(race=True) if race else vh
            ptr = os.path.join(d, f"pair{int(race)}.ndjson")
            r0 = run_vh(pv, ["p11-concurrent", str(nr), ptr], env={"VERIF_TMP": d, "VERIF_P11_SO": so}, timeout=1800)
            if "WARNING: DATA RACE" in (r0.stderr or ""):
                top = next((l.strip() for l in r0.stderr.splitlines() if "relic/v8" in l), "?")
                run.violation({"engine": "race-detector", "site": top}, "concurrent signing through the PKCS#11 token: the Go race detector reported a data race (" + top + ")\n" + r0.stderr[:2500], {"report": r0.stderr[:6000]})
                continue
            o = parse_vh_json(r0, "p11-concurrent")
            _absorb(run, o)
            pl = [l for l in open(ptr).read().splitlines() if l.strip()]
            if len(pl) != 3 * 4 * nr and not run.violations:
                raise NoVerdict(f"concurrent log has {len(pl)} events, expected {12 * nr}")
            ok, consumed, total, resd = validate_trace("P11Pair_Trace", "P11Pair_Trace.cfg", pl, timeout=900, dfs=False)
            run.add_tlc(resd, "P11Pair_Trace" + (" (race build)" if race else ""))
            if not ok:
                bad = pl[max(0, (consumed or 1) - 4):(consumed or 1) + 2]
                run.violation({"engine": "p11-pair-trace", "invariant": resd.violated or "rejected"},
                              f"the event log of 4 concurrent signers on one PKCS#11 session is not a behaviour of ScdPair with the token lock ({resd.violated or 'rejected'} at event {consumed} of {total}): ...{bad}", {"lines": bad})
    finally:
        shutil.rmtree(d, ignore_errors=True)
    run.cov["rule"] = (f"all {len(behs)} complete behaviours of {cfg} through the real p11token.Open / Ping / GetKey / SignContext / Generate / Import / ImportCertificate / Close "
                       "against the wire module + token model: slot list failing, 7 slot layouts x selection by label / serial / both / none, token info or session failing, "
                       "already logged in, PIN configured right/wrong or prompted or no prompt, C_Login answering USER_ALREADY_LOGGED_IN / DEVICE_ERROR, retry counter 1 or 3 with "
                       "PIN_LOCKED; 11 shapes of the key's objects x selection by label / id / both / undecodable id x a failing search step; per signature PKCS#1 v1.5 / PSS "
                       "(salt = hash, salt = maximum) / options without hash x C_SignInit or C_Sign failing, RSA and EC keys; key generation (RSA with X9.31 fallback, EC, "
                       "refusals) and import (RSA, EC, private half refused or failing, public half failing) followed by up to 3 certificate imports. Compared: the call "
                       "transcript entry by entry, prompts, outcome classes, objects left on the token, sessions left open; every signature verified. Recorded transcripts and "
                       f"the event log of 4x{nr} concurrent signatures on one session (plain and race build) validated by TLC. non-trivial = transcript longer than 8 calls")
    run.cov["exhaustive"] = True
    run.assumptions += ["the token model implements the parts of PKCS#11 v2.40 relic relies on (session and login state, one active operation per kind and session, private objects "
                        "invisible before login, the two-call length conventions); key wrapping (C_GenerateKey / C_Encrypt / C_UnwrapKey) answers CKR_FUNCTION_NOT_SUPPORTED, so "
                        "the wrapped-import fallback is exercised only up to its first call",
                        "the library is loaded and initialised once per process (relic caches it per provider path): C_Initialize is outside the compared transcripts",
                        "recorded as observed, not required: Open's failure paths call C_CloseSession on a session that was never opened; CKR_USER_ALREADY_LOGGED_IN from "
                        "C_Login is treated as a failure",
                        "trusted: the wire module's marshalling and the model's transcript recorder"]
    return run.finish()


def replay(path):
    return run("quick")
