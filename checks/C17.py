"""C17 — relic reads and rewrites ZIP structures exactly as standard readers see them.
Model: spec/ZipArchive.tla (member shapes x end-record shapes x operation histories; PrefixStable, DeleteRemoves,
ReEmitIdentity; 3 negative controls). Binding (A): a harness-owned ZIP writer (from APPNOTE) concretises every
generated archive; lib/zipslicer reads it in random-access and single-pass stream mode and performs the history
(relic's writer adds members, deletes, re-serialises the directory); after every step Go's archive/zip and Python's
zipfile must see the same member list, offsets, sizes, CRCs and contents as relic, and the unmodified directory
must re-serialise to the original bytes."""
import json, os, subprocess, concurrent.futures as cf
from vlib.common import *

NEG = ["AddReorders", "DeleteKeeps", "ReEmitDrops"]


def run(t):
    run = Run("C17", "model_checking", t)
    vh = build_vh()
    r = run_tlc("ZipArchive_MC", "ZipArchive_MC.cfg", timeout=900, want_beh=False)
    tlc_must_pass(r, "ZipArchive_MC")
    run.add_tlc(r, "ZipArchive mc")
    for v in NEG:
        tlc_must_fail(run_tlc("ZipArchive_MC", f"ZipArchive_Neg_{v}.cfg", timeout=300, want_beh=False, workers=4), v)
    run.cov["negative_controls"] = NEG
    mod = 40 if t == "quick" else 4
    sel = seed() % mod
    tmpl = open(os.path.join(SPEC, "mc", "ZipArchive_Gen.cfg.tmpl")).read()
    g = run_tlc("ZipArchive_MC", "zg.cfg", timeout=3000, heap="16g", files={"zg.cfg": tmpl.replace("@MOD@", str(mod)).replace("@SEL@", str(sel))})
    tlc_must_pass(g, "ZipArchive gen")
    run.add_tlc(g, f"gen Mod={mod} Sel={sel}")
    if len(g.beh) < 200:
        raise NoVerdict(f"only {len(g.beh)} behaviours for this seed")
    d = scratch("c17")
    try:
        p = os.path.join(d, "beh.jsonl")
        dump = os.path.join(d, "dump")
        os.makedirs(dump)
        with open(p, "w") as f:
            for b in g.beh:
                f.write(json.dumps(b) + "\n")
        shards = 8
        with cf.ThreadPoolExecutor(shards) as ex:
            futs = [ex.submit(run_vh, vh, ["replay-zip", p, str(i), str(shards)], None, 3000, {"VERIF_TMP": d, "VERIF_ZIPDUMP": dump}) for i in range(shards)]
            outs = [parse_vh_json(f.result(), "zip") for f in futs]
        py = subprocess.run(["python3", os.path.join(VERIF, "py", "zipcross.py"), dump], capture_output=True, text=True, timeout=900)
        if py.returncode != 0:
            raise NoVerdict("python cross-reader failed: " + py.stderr[-500:])
        pj = json.loads(py.stdout.strip().splitlines()[-1])
    finally:
        shutil.rmtree(d, ignore_errors=True)
    if sum(o["extra"]["behaviours_mine"] for o in outs) != len(g.beh):
        raise NoVerdict("zip replay incomplete")
    checked = 0
    for o in outs:
        run.cov["evaluations"] += o["evaluations"]
        run.cov["distinct_nontrivial"] += o["distinct_nontrivial"]
        checked += o["counters"].get("archives_checked", 0)
        for k, v in o["counters"].items():
            run.cov.setdefault("counters", {})[k] = run.cov.get("counters", {}).get(k, 0) + v
        for s in o["samples"][:1]:
            run.sample(s)
        for f in o["failures"]:
            run.violation(f["key"], f["desc"], f["replay"])
    run.cov["traces_validated_against_impl"] = checked
    run.cov["python_zipfile_checked"] = pj["checked"]
    for f in pj["failures"]:
        run.violation({"engine": "zip", "kind": "python-disagrees"}, "Python zipfile disagrees with Go archive/zip / relic: " + f, None)
    if checked < 100:
        raise NoVerdict("too few archives checked")
    # the member count at which the classic end record's 16-bit field is exhausted: 65534, 65535, 65536 members
    d = scratch("c17c")
    try:
        o = parse_vh_json(run_vh(vh, ["zip-count"], env={"VERIF_TMP": d}, timeout=900), "zip-count")
    finally:
        shutil.rmtree(d, ignore_errors=True)
    run.cov["evaluations"] += o["evaluations"]
    for f in o["failures"]:
        run.violation(f["key"], f["desc"], f["replay"])
    if o["counters"].get("count_archives_ok", 0) != 3 and not o["failures"]:
        raise NoVerdict(f"zip-count: {o['counters']}")
    run.cov["member_count_boundary"] = [65534, 65535, 65536]
    run.cov["rule"] = (f"behaviours = initial archive (0..2 members over shapes: store/deflate x empty/non-empty x descriptor none/16+sig/24+sig/"
                       f"12 without sig x ZIP64 extra x extra field x directory entry x entry comment; end records with/without ZIP64 "
                       f"records and archive comment) x 2 operations (add empty/data/dir member with relic's writer, delete first, re-emit), "
                       f"sampled by hash % {mod} = {sel} ({len(g.beh)}); archives relic documents as unsupported (descriptor without "
                       "signature, archive comment) may be refused but not misread; plus archives of 65534, 65535 and 65536 members (the 16-bit member "
                       "count boundary) read and re-serialised. non-trivial = at least one archive fully cross-checked")
    run.cov["exhaustive"] = False
    run.assumptions += ["member sizes are small; the 4 GiB thresholds are exercised only through forced ZIP64 fields, not through real large members (the 65535-member threshold is real)",
                        "archives with no members (22 bytes) are below relic's documented 42-byte minimum and are skipped"]
    return run.finish()


def replay(path):
    print(json.dumps(json.load(open(path)), indent=1)[:3000]); print("re-run: ./check C17"); return 0
