"""X02 (extension, outside the twenty listed properties) - the scdaemon token: one session with a smart-card daemon.
TLC: spec/ScdSession.tla (Open: greeting, LEARN, serial check, token.Login over CHECKPIN; GetKey: READKEY; Sign: SETDATA +
PKSIGN with the card's NEEDPIN inquiries; the daemon's answers are knobs) over spec/ScdProto.tla (protocol discipline
predicates on a transcript): PinOnlyOnNeedpin, OneCommandAtATime, AnswersOnlyInquiries, NoSignBeforeLogin,
SetdataThenPksign, BlockedNotHammered, SignHonest, LoginSubmissionsBacked, OpenFirst, liveness Terminates; 2 negative
controls. spec/ScdPair.tla: concurrent signers, the token lock makes SETDATA+PKSIGN one step (OwnDigestSigned,
Alternates, MutualExclusion, liveness AllDone; negative control NoSignLock).
Binding (A): every behaviour replayed with the real scdtoken.Open/GetKey/Sign against a harness-owned scdaemon fake
speaking Assuan over a Unix socket: transcript, prompts and the outcome class of every call equal the specification's;
returned signatures verify under the digest given. Binding (B): recorded transcripts validated by
trace/ScdProto_Trace; the merged event log of a concurrent signing run validated by trace/ScdPair_Trace (lock and
unlock as silent steps)."""
import json, os, concurrent.futures as cf
from vlib.common import *
from checks.C15 import _absorb

NEG = [("PinOnAnyInquiry", "PinOnlyOnNeedpin"), ("RetrySamePin", "LoginSubmissionsBacked")]


def _shard(vh, behs, i, d):
    p = os.path.join(d, f"beh{i}.jsonl")
    tr = os.path.join(d, f"tr{i}.ndjson")
    with open(p, "w") as f:
        for b in behs:
            f.write(json.dumps(b) + "\n")
    o = parse_vh_json(run_vh(vh, ["scd-replay", p, tr], env={"VERIF_TMP": d}, timeout=3000), f"scd-replay {i}")
    if o["extra"].get("behaviours_read") != len(behs):
        raise NoVerdict(f"scd-replay {i}: read {o['extra']} of {len(behs)}")
    return o, [l for l in open(tr).read().splitlines() if l.strip()]


def whole_sessions(tl, limit):
    """a prefix of the recorded lines that ends at a session boundary"""
    out, cur = [], []
    for l in tl + ['{"reset-sentinel":1}']:
        if '"reset' in l:
            if len(out) + len(cur) > limit:
                break
            out += cur
            cur = []
        if "sentinel" not in l:
            cur.append(l)
    return out


def run(t):
    run = Run("X02", "model_checking", t)
    vh = build_vh()
    deep = t != "quick"
    r = run_tlc("ScdSession_MC", "ScdSession_MC.cfg", timeout=900, want_beh=False)
    tlc_must_pass(r, "ScdSession_MC")
    run.add_tlc(r, "ScdSession mc (<=2 answers, <=2 signatures; all daemon knobs; liveness Terminates)")
    for v, inv in NEG:
        tlc_must_fail(run_tlc("ScdSession_MC", f"ScdSession_Neg_{v}.cfg", timeout=300, want_beh=False, workers=4), v, expect=inv)
    r = run_tlc("ScdPair_MC", "ScdPair_MC.cfg", timeout=900, want_beh=False)
    tlc_must_pass(r, "ScdPair_MC")
    run.add_tlc(r, "ScdPair mc (3 signers x 2 rounds; liveness AllDone)")
    tlc_must_fail(run_tlc("ScdPair_MC", "ScdPair_Neg_NoSignLock.cfg", timeout=300, want_beh=False, workers=4), "NoSignLock", expect="OwnDigestSigned")
    run.cov["negative_controls"] = [v for v, _ in NEG] + ["NoSignLock"]
    cfg = "ScdSession_GenDeep.cfg" if deep else "ScdSession_Gen.cfg"
    g = run_tlc("ScdSession_Gen", cfg, timeout=3000, heap="24g")
    tlc_must_pass(g, cfg)
    run.add_tlc(g, cfg)
    behs = g.beh
    if len(behs) < 10000:
        raise NoVerdict(f"only {len(behs)} ScdSession behaviours")
    random.Random(seed()).shuffle(behs)
    shards = 8
    d = scratch("x02")
    try:
        with cf.ThreadPoolExecutor(shards) as ex:
            outs = list(ex.map(lambda i: _shard(vh, behs[i::shards], i, d), range(shards)))
        opens = {}
        lines = []
        for o, tl in outs:
            _absorb(run, o)
            for k, v in o["counters"].items():
                if k.startswith("open_"):
                    opens[k] = opens.get(k, 0) + v
            lines += whole_sessions(tl, 700)
        if len(opens) < 8 and not run.violations:
            raise NoVerdict(f"outcome coverage {opens}")
        run.cov["open_outcomes"] = opens
        # recorded transcripts against the protocol predicates
        ok, consumed, total, resd = validate_trace("ScdProto_Trace", "ScdProto_Trace.cfg", lines, timeout=900, dfs=False)
        run.add_tlc(resd, "ScdProto_Trace")
        run.cov["traces_validated_against_impl"] += sum(1 for l in lines if '"reset"' in l)
        if not ok:
            bad = lines[max(0, (consumed or 1) - 6):(consumed or 1) + 1]
            run.violation({"engine": "scd-trace", "invariant": resd.violated or "rejected"},
                          f"a transcript recorded from the real scdaemon token violates {resd.violated or 'the protocol specification'} at line {consumed} of {total}: ...{bad}",
                          {"lines": bad})
        # concurrent signers, also under the race detector
        ns, nr = (4, 30) if deep else (4, 10)
        for race in (False, True):
            pv = build_vh(race=True) if race else vh
            ptr = os.path.join(d, f"pair{int(race)}.ndjson")
            r0 = run_vh(pv, ["scd-concurrent", str(ns), str(nr), ptr], env={"VERIF_TMP": d}, timeout=1800)
            if "WARNING: DATA RACE" in (r0.stderr or ""):
                top = next((l.strip() for l in r0.stderr.splitlines() if "relic/v8" in l), "?")
                run.violation({"engine": "race-detector", "site": top}, "concurrent signing through the scdaemon token: the Go race detector reported a data race (" + top + ")\n" + r0.stderr[:2500], {"report": r0.stderr[:6000]})
                continue
            o = parse_vh_json(r0, "scd-concurrent")
            _absorb(run, o)
            pl = [l for l in open(ptr).read().splitlines() if l.strip()]
            if len(pl) != 3 * ns * nr and not run.violations:
                raise NoVerdict(f"concurrent log has {len(pl)} events, expected {3 * ns * nr}")
            ok, consumed, total, resd = validate_trace("ScdPair_Trace", "ScdPair_Trace.cfg", pl, timeout=900, dfs=False)
            run.add_tlc(resd, "ScdPair_Trace" + (" (race build)" if race else ""))
            run.cov["traces_validated_against_impl"] += 1
            if not ok:
                bad = pl[max(0, (consumed or 1) - 4):(consumed or 1) + 2]
                run.violation({"engine": "scd-pair-trace", "invariant": resd.violated or "rejected"},
                              f"the event log of {ns} concurrent signers is not a behaviour of ScdPair with the token lock ({resd.violated or 'rejected'} at event {consumed} of {total}): ...{bad}",
                              {"lines": bad})
    finally:
        shutil.rmtree(d, ignore_errors=True)
    run.cov["rule"] = (f"all {len(behs)} complete behaviours of {cfg} through the real scdtoken.Open / GetKey / SignContext against the scdaemon fake "
                       "(greeting ok/refused; LEARN plain / with KNOWNCARDP inquiry / without keys / failing; configured serial unset/matching/other; "
                       "PIN configured right/wrong or prompted (<=2/3 answers) or no prompt; CHECKPIN inquiry NEEDPIN or an unknown one; retry counter 1 or 3 "
                       "with a card that blocks; key id unset/matching/unknown; READKEY rsa/ecc/garbage/error; per signature ok / PIN asked again / PIN "
                       "rejected / card error / unknown inquiry). Compared: the daemon-side transcript line by line, prompts shown, outcome class of every "
                       "call, connections left open; signatures verified under the caller's digest. A sample of the recorded transcripts and the event "
                       f"log of {ns}x{nr} concurrent signatures (plain and race build) validated by TLC. non-trivial = transcript longer than 6 lines")
    run.cov["exhaustive"] = True
    run.assumptions += ["the fake implements the Assuan framing and the scdaemon commands relic uses from the GnuPG manuals; like libassuan it ignores empty lines "
                        "(relic's PKSIGN command carries a stray second newline)",
                        "the keyring is not part of this module (SecretEntry covers it); PINs are 6-digit strings",
                        "trusted: the fake's own transcript recorder"]
    return run.finish()


def replay(path):
    return run("quick")
