"""C15 — token failures are retried only when safe and reported faithfully.
TLC: spec/WorkerRetry.tla + spec/TokenCache.tla (+ negative controls). Binding (A): every generated
behaviour replayed on the real worker client (doRetry/doOnce) against a scripted endpoint; the real
workercmd handler in front of a scripted token for classification, cookie gate and key-id pinning
across the RPC; TokenCache behaviours replayed on the real tokencache.Cache."""
import json, os
from vlib.common import *

NEG_W = ["RetryPermanent", "OneMore", "IgnoreCancel", "SuccessAfterFail", "DropUsage"]
NEG_C = ["NoMutex", "IgnoreKeyId", "CachePinned", "KeyByToken", "StaleOnError"]


def _feed(run, vh, sub, behs, label, extra=None, timeout=3000):
    d = scratch("c15")
    try:
        p = os.path.join(d, "beh.jsonl")
        with open(p, "w") as f:
            for b in behs:
                f.write(json.dumps(b) + "\n")
        r = run_vh(vh, [sub, p] + (extra or []), env={"VERIF_TMP": d}, timeout=timeout)
        o = parse_vh_json(r, label)
    finally:
        shutil.rmtree(d, ignore_errors=True)
    if o["extra"].get("behaviours_read") != len(behs):
        raise NoVerdict(f"{label}: harness read {o['extra']} of {len(behs)}")
    _absorb(run, o)
    return o


def _absorb(run, o):
    run.cov["evaluations"] += o["evaluations"]
    run.cov["distinct_nontrivial"] += o["distinct_nontrivial"]
    run.cov["traces_validated_against_impl"] += o["evaluations"]
    for k, v in o.get("counters", {}).items():
        run.cov.setdefault("counters", {})[k] = run.cov.get("counters", {}).get(k, 0) + v
    for s in o["samples"][:2]:
        run.sample(s)
    for f in o["failures"]:
        run.violation(f["key"], f["desc"], f["replay"])


def run(t):
    run = Run("C15", "model_checking", t)
    vh = build_vh()
    r = run_tlc("WorkerRetry_MC", "WorkerRetry_MC.cfg", timeout=900, want_beh=False)
    tlc_must_pass(r, "WorkerRetry_MC")
    run.add_tlc(r, "WorkerRetry mc (limit<=5, 15 outcome classes, cancel anywhere)")
    r = run_tlc("TokenCache_MC", "TokenCache_MC.cfg", timeout=900, want_beh=False)
    tlc_must_pass(r, "TokenCache_MC")
    run.add_tlc(r, "TokenCache mc (2 clients interleaved with Rotate/Expire)")
    for v in NEG_W:
        tlc_must_fail(run_tlc("WorkerRetry_MC", f"WorkerRetry_Neg_{v}.cfg", timeout=300, want_beh=False, workers=2), v)
    for v in NEG_C:
        tlc_must_fail(run_tlc("TokenCache_MC", f"TokenCache_Neg_{v}.cfg", timeout=300, want_beh=False, workers=4), v)
    run.cov["negative_controls"] = NEG_W + NEG_C
    # retry behaviours
    cfg = "WorkerRetry_Gen.cfg" if t == "quick" else "WorkerRetry_GenDeep.cfg"
    g = run_tlc("WorkerRetry_Gen", cfg, timeout=900)
    tlc_must_pass(g, cfg)
    run.add_tlc(g, cfg)
    if not g.beh:
        raise NoVerdict("no retry behaviours")
    _feed(run, vh, "replay-worker", g.beh, cfg, extra=["2000" if t == "quick" else "4000"])
    nretry = len(g.beh)
    # cache behaviours
    cfg2 = "TokenCache_Gen.cfg" if t == "quick" else "TokenCache_GenDeep.cfg"
    g = run_tlc("TokenCache_Gen", cfg2, timeout=900, heap="16g")
    tlc_must_pass(g, cfg2)
    run.add_tlc(g, cfg2)
    _feed(run, vh, "replay-tokencache", g.beh, cfg2, extra=["1000"])
    ncache = len(g.beh)
    # one real Cache under concurrent pinned/unpinned lookups with rotation and expiry; events validated by TokenCache_Trace
    from checks.C14 import validate_cache
    d = scratch("c15s")
    try:
        tr = os.path.join(d, "stress.ndjson")
        o = parse_vh_json(run_vh(vh, ["cache-stress", "-n", "3000" if t == "quick" else "30000", "-c", "8", "-trace", tr], timeout=600), "cache-stress")
        _absorb(run, o)
        evs = [json.loads(l) for l in open(tr)]
        validate_cache(run, [dict(e, c="stress") for e in evs], "cache-stress")
    finally:
        shutil.rmtree(d, ignore_errors=True)
    # classification across the real RPC boundary, cookie gate, pinning
    dc = scratch("c15c")   # (a failing run of the engine exits without removing its directory)
    try:
        o = parse_vh_json(run_vh(vh, ["worker-classify"], timeout=300, env={"VERIF_TMP": dc}), "classify")
    finally:
        shutil.rmtree(dc, ignore_errors=True)
    _absorb(run, o)
    run.cov["rule"] = (f"all {nretry} complete behaviours of {cfg} (limit x per-attempt outcome sequence x cancellation point) replayed "
                       "concurrently on token/worker doRetry against a scripted endpoint: attempts counted at the endpoint, back-off "
                       "gaps as lower bounds (client-side connect times), error class returned, cancel latency <= 2 s; "
                       f"all {ncache} sequential behaviours of {cfg2} (GetKey pinned/unpinned, Rotate keep/drop, Expire) on the real "
                       "tokencache.Cache with ids and hit/miss compared; 29 RPC cases through the real workercmd handler. "
                       "non-trivial = more than one attempt or a cancellation / at least two GetKey calls")
    run.cov["exhaustive"] = True
    run.assumptions += ["per-attempt timeout 1 s; back-off checked only as a lower bound (0.95 x delay)",
                        "the cache's base token in the replay honours a pinned key id (returns exactly that id or fails), as TokenCache.tla assumes and as azuretoken does; p11token ignores the pin (recorded as finding X04-p11-pinned-key-id-ignored) - the property's clause is about the cache, which never serves a pinned request from an entry with another id",
                        "'refused' = the harness's DialContext redirects that attempt to a port nobody listens on (genuine ECONNREFUSED)",
                        "retries < 1 is outside the property's quantifier (observation: negative retries returns (nil, nil))"]
    return run.finish()


def replay(path):
    vh = build_vh()
    obj = json.load(open(path))
    run = Run("C15", "model_checking", "quick")
    eng = obj["key"].get("engine")
    if eng == "workerretry":
        _feed(run, vh, "replay-worker", [obj["replay"]], "replay")
    elif eng == "tokencache":
        _feed(run, vh, "replay-tokencache", [obj["replay"]], "replay")
    else:
        _absorb(run, parse_vh_json(run_vh(vh, ["worker-classify"]), "classify"))
    for _, desc, _ in run.violations:
        print(desc)
    return 1 if run.violations else 0
