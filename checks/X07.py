"""X07 (extension, outside the twenty listed properties) - whom `relic verify` trusts.
TLC: spec/VerifyTrust.tla - a reference predicate Trusted (a path from the signer's certificate to one of the operator's
anchors through the bundled intermediate, every certificate on it valid and the intermediate a CA, at the attested time of
this signature's own timestamp - whose authority chains to the same anchors and is valid at that time - or now without one;
a timestamp grafted from another signature condemns; --no-trust-chain asks not to judge) against the pipeline relic runs
(Decide): AcceptsOnlyTrusted, AcceptsAllTrusted, NoAnchorNoTrust, ExpiredNeedsStamp, ForeignStampCondemns,
StrangerNeverByAccident, liveness Terminates; 8 negative controls. The intermediate may travel with the signature, only inside
the timestamp token, or have been met by an earlier verification in the same process (neither of the latter two makes it usable);
the authority's certificate may lack the time-stamping usage. Binding (A): every case as a real PKI on the real clock,
a real CMS signature by relic's builder with a real RFC 3161 token, judged by the library path of the verify command
(pkcs7 Verify, pkcs9 VerifyOptionalTimestamp, TimestampedSignature.VerifyChain) and, for a seeded sample, by the real
`relic verify --cert anchors [--no-trust-chain]` process on the signature file."""
import json, os
from vlib.common import *
from checks.C15 import _absorb

NEG = [("IgnoreBundled", "AcceptsAllTrusted"), ("NowNotStamp", ("AcceptsAllTrusted", "AcceptsOnlyTrusted", "ExpiredNeedsStamp")), ("SkipTsaChain", "AcceptsOnlyTrusted"),
       ("StampSelfVouches", ("AcceptsOnlyTrusted", "ForeignStampCondemns")), ("NoChainDefault", ("AcceptsOnlyTrusted", "NoAnchorNoTrust", "ExpiredNeedsStamp", "StrangerNeverByAccident")),
       ("AnchorNeedsNoValidity", ("AcceptsOnlyTrusted", "ExpiredNeedsStamp")), ("TsaAnyUsage", ("AcceptsOnlyTrusted", "ExpiredNeedsStamp")),
       ("SharedPool", ("AcceptsOnlyTrusted",))]


def run(t):
    run = Run("X07", "model_checking", t)
    vh = build_vh()
    relic = build_relic()
    r = run_tlc("VerifyTrust_MC", "VerifyTrust_MC.cfg", timeout=900, want_beh=False)
    tlc_must_pass(r, "VerifyTrust_MC")
    run.add_tlc(r, "VerifyTrust mc (signer issued by intermediate / root / itself / a stranger x validity windows x intermediate CA or not, bundled with the signature / only in the token / not, met earlier in the process or not x 5 anchor sets x timestamp none / own / foreign x authority under root or stranger, with or without the time-stamping usage x attested time x now x --no-trust-chain; liveness Terminates)")
    for v, inv in NEG:
        tlc_must_fail(run_tlc("VerifyTrust_MC", f"VerifyTrust_Neg_{v}.cfg", timeout=300, want_beh=False, workers=8), v, expect=inv)
    run.cov["negative_controls"] = [v for v, _ in NEG]
    g = run_tlc("VerifyTrust_Gen", "VerifyTrust_Gen.cfg", timeout=900)
    tlc_must_pass(g, "VerifyTrust_Gen")
    run.add_tlc(g, "VerifyTrust gen")
    if len(g.beh) < 110000:
        raise NoVerdict(f"only {len(g.beh)} VerifyTrust cases")
    every = 40 if t == "quick" else 4
    d = scratch("x07")
    try:
        p = os.path.join(d, "cases.jsonl")
        with open(p, "w") as f:
            for b in g.beh:
                f.write(json.dumps(b) + "\n")
        o = parse_vh_json(run_vh(vh, ["replay-trust", p, relic, str(every), str(seed())], env={"VERIF_TMP": d}, timeout=3000), "replay-trust")
    finally:
        shutil.rmtree(d, ignore_errors=True)
    _absorb(run, o)
    c = o["counters"]
    if o["extra"].get("behaviours_read") != len(g.beh) and not run.violations:
        raise NoVerdict(f"replayed {o['extra']} of {len(g.beh)}")
    if not run.violations and (c.get("lib_accept", 0) < 500 or c.get("cli_accept", 0) < 100 or c.get("cli_reject", 0) < 100 or c.get("cli_died", 0)):
        raise NoVerdict(f"coverage {c}")
    run.cov["verdicts"] = c
    run.cov["rule"] = (f"all {len(g.beh)} cases of VerifyTrust_Gen as real certificates and signatures: the {c.get('lib_accept', 0) + c.get('lib_reject', 0)} cases with trust judged through the library path "
                       f"of the verify command; every {every}th case (seeded offset), {c.get('cli_accept', 0) + c.get('cli_reject', 0)} in all and --no-trust-chain ones included, through a real `relic verify` process; "
                       "compared: accept / reject. non-trivial = accepted")
    run.cov["exhaustive"] = True
    run.assumptions += ["the X.509 path validator is Go's crypto/x509 as relic calls it; the reference predicate restates what an operator expects of it for this PKI (one optional intermediate, anchors that never expire except an anchored intermediate / signer certificate); name constraints, path lengths, revocation and the system trust store (no --cert) are not modelled",
                        "the key usage asked of the signer's certificate is 'any', as the verify command asks; the time-stamping authority's certificate carries the time-stamping usage",
                        "case times are a 4-point grid of 30-day units placed so that the case's `now` is the real clock's now, windows padded by a day"]
    return run.finish()


def replay(path):
    return run("quick")
