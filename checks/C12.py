"""C12 — binary patches apply exactly, in place or by rewrite.
TLC: spec/BinPatch.tla exhaustive (mc + gen cfg), negative controls; binding (A): every generated
behaviour replayed on lib/binpatch + signers.ApplyBinPatch by `vh replay-binpatch`."""
import json, os, subprocess
from vlib.common import *

NEG = [("NoAdjacency", "CoalesceSound"), ("NoSort", "DumpSorted"), ("InPlaceNonFinal", "StrategiesAgree"),
       ("NoTruncate", "StrategiesAgree"), ("NoSkip", "CoalesceSound"), ("LoadShortBlob", "TruncatedRejected"),
       ("OldEndLE", "StrategiesAgree")]


def _feed(run, vh, behs, label, sub="replay-binpatch", extra_args=None):
    d = scratch("c12")
    try:
        p = os.path.join(d, "beh.jsonl")
        with open(p, "w") as f:
            for b in behs:
                f.write(json.dumps(b) + "\n")
        r = run_vh(vh, [sub, p] + (extra_args or []), env={"VERIF_TMP": d}, timeout=3000)
        out = parse_vh_json(r, label)
    finally:
        shutil.rmtree(d, ignore_errors=True)
    if out.get("extra", {}).get("behaviours_read") != len(behs):
        raise NoVerdict(f"{label}: harness read {out.get('extra')} of {len(behs)} behaviours")
    run.cov["evaluations"] += out["evaluations"]
    run.cov["distinct_nontrivial"] += out["distinct_nontrivial"]
    run.cov["traces_validated_against_impl"] += out["evaluations"]
    for k, v in out["counters"].items():
        run.cov.setdefault("counters", {}).setdefault(k, 0)
        run.cov["counters"][k] += v
    for s in out["samples"]:
        run.sample(s)
    for f in out["failures"]:
        run.violation(f["key"], f["desc"], f["replay"])
    return out


def _u32_matters(b):
    """re-run the Add rule without any size limit; the behaviour exercises the limit iff that differs"""
    ps = []
    for a in b["adds"]:
        if ps and a["off"] == ps[-1]["off"] + ps[-1]["old"]:
            ps[-1] = {"off": ps[-1]["off"], "old": ps[-1]["old"] + a["old"], "blob": ps[-1]["blob"] + a["blob"]}
        else:
            ps.append(dict(a))
    return ps != b["psHist"][-1] if b["adds"] else False


def run(t):
    run = Run("C12", "model_checking", t)
    vh = build_vh()
    # 1. exhaustive model check with the small U32 (split / refused coalescing)
    mc = run_tlc("BinPatch_MC", "BinPatch_MC.cfg", timeout=900, want_beh=False)
    tlc_must_pass(mc, "BinPatch_MC")
    run.add_tlc(mc, "mc U32=3")
    # 2. negative controls: each wrong variant must be caught by TLC
    negs = NEG if t == "thorough" else NEG[: 3 + seed() % 2] + NEG[5:6]
    for v, inv in negs:
        r = run_tlc("BinPatch_MC", f"BinPatch_Neg_{v}.cfg", timeout=300, want_beh=False, workers=4)
        tlc_must_fail(r, v, inv)
    run.cov["negative_controls"] = [v for v, _ in negs]
    # 3. generate every behaviour within bounds and replay it on the real code
    cfg = "BinPatch_Gen.cfg" if t == "quick" else "BinPatch_GenDeep.cfg"
    gen = run_tlc("BinPatch_Gen", cfg, timeout=3000, heap="24g")
    tlc_must_pass(gen, cfg)
    run.add_tlc(gen, cfg)
    if not gen.beh:
        raise NoVerdict("generator produced no behaviours")
    _feed(run, vh, gen.beh, cfg)
    n1 = len(gen.beh)
    gen.beh = None
    # 4. the U32 classes on the real constant (sparse files), scaled by the harness
    g2 = run_tlc("BinPatch_Gen", "BinPatch_GenU32.cfg", timeout=900)
    tlc_must_pass(g2, "GenU32")
    run.add_tlc(g2, "gen U32=3")
    big = [b for b in g2.beh if _u32_matters(b)]
    rnd = random.Random(seed())
    rnd.shuffle(big)
    cap = 150 if t == "quick" else 2000
    out = _feed(run, vh, big[:cap], "U32", sub="replay-binpatch-u32")
    run.cov["u32_behaviours_available"] = len(big)
    run.cov["rule"] = ("every complete behaviour (orig, Add sequence in the builders' domain, Dump, Load, Apply) of "
                       f"spec/gen/{cfg} enumerated exhaustively by TLC ({n1}) and replayed on lib/binpatch with the "
                       "patch list compared after each Add, wire bytes parsed independently, Apply in 3 path modes, "
                       "every proper wire prefix through signers.ApplyBinPatch; plus U32-boundary behaviours on "
                       "sparse >4GiB files; non-trivial = at least one Add; distinct by construction (TLC states)")
    run.cov["exhaustive"] = True
    run.assumptions += ["patch sets restricted to the builders' domain (DESIGN.md A.1)",
                        "blobs > 4 GiB not exercised"]
    return run.finish()


def replay(path):
    vh = build_vh()
    obj = json.load(open(path))
    run = Run("C12", "model_checking", "quick")
    sub = "replay-binpatch-u32" if obj["key"].get("engine") == "binpatch-u32" else "replay-binpatch"
    _feed(run, vh, [obj["replay"]], "replay", sub=sub)
    for _, desc, _ in run.violations:
        print(desc)
    return 1 if run.violations else 0
