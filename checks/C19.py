"""C19 — XML signatures depend on canonical meaning, not on serialisation.
TLC: spec/XmlC14n.tla transcribes exclusive XML canonicalisation for small documents and checks the re-serialisation
laws (unused / repeated declarations and comments are irrelevant; processing instructions, text and rebinding a used
prefix matter; attributes are ordered by namespace URI) with 5 negative controls ('relic' = the deviations lib/xmldsig
had before the fix). Binding (A): every generated document, in three lexical styles, through the real
xmldsig.SerializeCanonical, compared with the model's canonical form AND the JDK's exclusive canonicaliser (the two
oracles must agree with each other first). Signed ClickOnce manifests and VSIX package signatures are re-serialised by
meaning-preserving and meaning-changing rewrites and judged by relic's verifier and the JDK's XML-DSig validator.
ECDSA SignatureValue width, publicKeyToken and publisher are recomputed independently."""
import json, os, concurrent.futures as cf
from vlib.common import *
from checks.C15 import _absorb

NEG = [("RenderUnused", "UnusedDeclIrrelevant"), ("KeepRedundantRedecl", "RedundantRedeclIrrelevant"), ("SortByPrefix", "AttrOrderByUri"),
       ("DropPI", "PIMatters"), ("relic", None)]


def _java_ready():
    if not os.path.exists(os.path.join(VERIF, "build", "java", "XmlRef.class")):
        r = subprocess.run(["bash", "-c", "mkdir -p build/java && javac -d build/java --add-exports java.xml.crypto/com.sun.org.apache.xml.internal.security=ALL-UNNAMED "
                            "--add-exports java.xml.crypto/com.sun.org.apache.xml.internal.security.c14n=ALL-UNNAMED java/*.java"], cwd=VERIF, capture_output=True, text=True)
        if r.returncode != 0:
            raise NoVerdict("cannot compile java/XmlRef.java: " + r.stderr[-300:])


def _canon(vh, behs, i, n):
    d = scratch("c19")
    try:
        p = os.path.join(d, "beh.jsonl")
        with open(p, "w") as f:
            for b in behs:
                f.write(json.dumps(b) + "\n")
        return parse_vh_json(run_vh(vh, ["xml-canon", p, str(n)], env={"VERIF_TMP": d, "VERIF_SEED": str(seed() * 100 + i), "VERIF_JAVA_CP": os.path.join(VERIF, "build", "java")}, timeout=3000), f"xml-canon {i}")
    finally:
        shutil.rmtree(d, ignore_errors=True)


def run(t):
    run = Run("C19", "model_checking", t)
    vh = build_vh()
    _java_ready()
    deep = t != "quick"
    r = run_tlc("XmlC14n_MC", "XmlC14n_MC.cfg", timeout=1800, want_beh=False)
    tlc_must_pass(r, "XmlC14n_MC")
    run.add_tlc(r, "XmlC14n mc (190464 well-formed documents: 3 nested elements x prefixes x declaration sets x attribute sets x apex x comment/PI/text)")
    with cf.ThreadPoolExecutor(5) as ex:
        negs = list(ex.map(lambda v: (v, run_tlc("XmlC14n_MC", f"XmlC14n_Neg_{v[0]}.cfg", timeout=900, want_beh=False, workers=3)), NEG))
    for (v, inv), res_ in negs:
        tlc_must_fail(res_, v, expect=inv)
    run.cov["negative_controls"] = [v for v, _ in NEG]
    behs = []
    for cfg in (["XmlC14n_Gen.cfg", "XmlC14n_GenDeep.cfg"] if deep else ["XmlC14n_Gen.cfg"]):
        g = run_tlc("XmlC14n_MC", cfg, timeout=3600, heap="24g")
        tlc_must_pass(g, cfg)
        run.add_tlc(g, cfg)
        behs += g.beh
    if len(behs) < 100000:
        raise NoVerdict(f"only {len(behs)} documents")
    shards = 8
    per = 2500 if not deep else 10 ** 7
    random.Random(seed()).shuffle(behs)
    parts = [behs[i::shards] for i in range(shards)]
    with cf.ThreadPoolExecutor(shards) as ex:
        outs = list(ex.map(lambda iv: _canon(vh, iv[1], iv[0], per), enumerate(parts)))
    ndocs = 0
    for o in outs:
        if o["extra"].get("oracle_disagreements"):
            raise NoVerdict(f"the model's canonical form and the JDK canonicaliser disagree on {o['extra']['oracle_disagreements']} documents: {o['notes'][:2]}")
        _absorb(run, o)
        ndocs += o["counters"].get("documents", 0)
    d = scratch("c19s")
    try:
        o = parse_vh_json(run_vh(vh, ["xml-signed", "150" if deep else "40"], env={"VERIF_TMP": d, "VERIF_JAVA_CP": os.path.join(VERIF, "build", "java")}, timeout=3000), "xml-signed")
    finally:
        shutil.rmtree(d, ignore_errors=True)
    if o["counters"].get("oracle_disagreements"):
        raise NoVerdict(f"the JDK validator contradicts the expected verdict of a rewrite: {o['notes'][:3]}")
    if o["counters"].get("jdk_judged", 0) < 30 and not o["failures"]:
        raise NoVerdict(f"JDK validator judged only {o['counters'].get('jdk_judged')} rewrites: {o['notes'][:3]}")
    o["failures"] = [f for f in o["failures"] if f["key"].get("kind") != "jdk-rejects-relic-output"]   # owned by C05
    _absorb(run, o)
    run.cov["rule"] = (f"{ndocs} of {len(behs)} generated documents (seeded sample in quick; thorough: all documents of two option-set configurations), each in three lexical styles (attribute order, "
                       "quote style, empty-element form, prolog, comments outside, CDATA/character references, whitespace in tags): "
                       "xmldsig.SerializeCanonical on the chosen subtree = the model's canonical form = the JDK exclusive canonicaliser, byte for byte; "
                       "signed manifest (RSA/P-256 x SHA-1/SHA-256; strong-name and licence signatures) under 14 rewrites and signed VSIX package "
                       "signature under 9 rewrites, judged by relic's verifier and (where it knows the algorithm identifiers) the JDK validator; "
                       "SignatureValue width over repeated P-256/P-384/P-521 signatures; publicKeyToken recomputed from the RSA key; publisher = certificate subject. "
                       "non-trivial = document with a feature beyond plain nesting / rewrite other than identity")
    run.cov["exhaustive"] = deep
    run.assumptions += ["documents are chains of three elements over prefixes {default, p, q} and two URIs; xmlns=\"\" undeclaration, xml:* attributes and "
                        "InclusiveNamespaces prefix lists are not generated",
                        "ClickOnce SHA-256 signatures use Microsoft's algorithm identifiers, which the JDK validator does not know: those are judged by relic alone",
                        "trusted: the JDK canonicaliser/validator, cross-checked against the TLA+ transcription on every document"]
    return run.finish()


def replay(path):
    vh = build_vh()
    _java_ready()
    obj = json.load(open(path))
    run = Run("C19", "model_checking", "quick")
    d = scratch("c19s")
    try:
        if obj["key"].get("engine") == "xml-signed":
            _absorb(run, parse_vh_json(run_vh(vh, ["xml-signed", "150"], env={"VERIF_TMP": d, "VERIF_JAVA_CP": os.path.join(VERIF, "build", "java")}, timeout=3000), "xml-signed"))
        else:
            print(json.dumps(obj["replay"], indent=1)[:2000])
            print("re-run: ./check C19 (documents are regenerated by TLC)")
    finally:
        shutil.rmtree(d, ignore_errors=True)
    for _, desc, _ in run.violations:
        print(desc)
    return 1 if run.violations else 0
