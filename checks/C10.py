"""C10 — only genuine, matching timestamps are attached and they govern validity time.
TLC: spec/Timestamp.tla (authorities in every order x 15 reply behaviours x cache modes) + 7 negative controls;
binding (A): every behaviour replayed on relic's real tsclient -> pkcs9.TimestampAndMarshal against harness-owned
RFC 3161 authorities (own CMS encoder) and a fake memcached; verifier grid (all orderings of the validity windows,
attested time and now; grafted countersignature) on relic's real chain validation."""
import json, os
from vlib.common import *

NEG = ["NoNonceCheck", "NoImprintCheck", "AcceptRejected", "NoTokenSigCheck", "FirstFailAborts", "OmitOnFailure", "CacheSkipsSelfCheck", "RememberPosition"]


def _feed(run, vh, sub, behs, label, extra=None):
    d = scratch("c10")
    try:
        p = os.path.join(d, "beh.jsonl")
        with open(p, "w") as f:
            for b in behs:
                f.write(json.dumps(b) + "\n")
        o = parse_vh_json(run_vh(vh, [sub, p] + (extra or []), env={"VERIF_TMP": d}, timeout=3000), label)
    finally:
        shutil.rmtree(d, ignore_errors=True)
    if o["extra"].get("behaviours_read") != len(behs):
        raise NoVerdict(f"{label}: harness read {o['extra']} of {len(behs)}")
    run.cov["evaluations"] += o["evaluations"]
    run.cov["distinct_nontrivial"] += o["distinct_nontrivial"]
    run.cov["traces_validated_against_impl"] += o["evaluations"]
    for s in o["samples"][:2]:
        run.sample(s)
    for f in o["failures"]:
        run.violation(f["key"], f["desc"], f["replay"])
    if sub == "replay-timestamp":
        run.cov["cosign_tokens_bound"] = run.cov.get("cosign_tokens_bound", 0) + o["counters"].get("cosign_bound", 0)
        if o["counters"].get("cosign_bound", 0) != 2 and not o["failures"]:
            raise NoVerdict(f"{label}: the cosign binding step produced {o['counters'].get('cosign_bound')} of 2 timestamped signatures")


def run(t):
    run = Run("C10", "model_checking", t)
    vh = build_vh()
    r = run_tlc("Timestamp_MC", "Timestamp_MC.cfg", timeout=900, want_beh=False)
    tlc_must_pass(r, "Timestamp_MC")
    run.add_tlc(r, "mc 3 urls x 13 behaviours x 5 cache modes")
    for v in NEG:
        tlc_must_fail(run_tlc("Timestamp_MC", f"Timestamp_Neg_{v}.cfg", timeout=300, want_beh=False, workers=2), v)
    run.cov["negative_controls"] = NEG
    cfg = "Timestamp_Gen.cfg" if t == "quick" else "Timestamp_GenDeep.cfg"
    g = run_tlc("Timestamp_Gen", cfg, timeout=1200)
    tlc_must_pass(g, cfg)
    run.add_tlc(g, cfg)
    nb = len(g.beh)
    _feed(run, vh, "replay-timestamp", g.beh, cfg, extra=["64" if t == "quick" else "256"])
    grid = 3 if t == "quick" else 4
    v = run_tlc("TimestampVerify_Gen", "tv.cfg", timeout=1200, files={"tv.cfg": f"CONSTANTS Grid = {grid}\nSPECIFICATION VSpec\nINVARIANTS Export\nCHECK_DEADLOCK FALSE\n"})
    tlc_must_pass(v, "verify grid")
    run.add_tlc(v, f"verifier grid 0..{grid}")
    nv = len(v.beh)
    _feed(run, vh, "replay-tsverify", v.beh, "verify grid")
    # the legacy Microsoft token: content / message-digest / signature links
    lg = run_tlc("LegacyStamp_MC", "LegacyStamp_MC.cfg", timeout=300)
    tlc_must_pass(lg, "LegacyStamp_MC")
    run.add_tlc(lg, "LegacyStamp mc (8 tokens)")
    for vv in ("SkipDigest", "SkipContentCompare"):
        tlc_must_fail(run_tlc("LegacyStamp_MC", f"LegacyStamp_Neg_{vv}.cfg", timeout=300, want_beh=False), vv, "OnlyGenuineAccepted")
    _feed(run, vh, "ts-legacy", lg.beh, "legacy tokens")
    run.cov["rule"] = (f"client: all {nb} complete behaviours of {cfg} (1..N configured authorities each answering with one of 15 behaviours: "
                       "valid, granted-with-mods, wrong/absent nonce, wrong imprint, rejected, waiting, non-granting status with a valid token, bad token signature, no certificate, "
                       "HTTP error, hang, garbage, trailing bytes; cache off/miss/good hit/garbage hit/hit for another signature) replayed "
                       "through tsclient.New -> pkcs9.TimestampAndMarshal; observed: authorities contacted in order, error vs emitted "
                       "signature, identity of the authority whose token was attached, chain verification of the result. "
                       f"verifier: all {nv} cases of the time grid (signer and TSA validity windows, attested time, now, timestamp "
                       "present/absent, countersignature over this or another signature value) on relic's VerifyChain; "
                       "legacy Microsoft tokens: all 8 combinations of (content, value the message digest was computed over, signature intact) x RSA/ECDSA authority "
                       "on pkcs9.VerifyMicrosoftToken.")
    run.cov["exhaustive"] = True
    run.assumptions += ["RFC 3161 style through the PKCS#7 path; the legacy Microsoft style only at VerifyMicrosoftToken (no legacy HTTP exchange is scripted); of the signers that attach a timestamp in their own way, cosign is replayed against a working authority (the token must attest the decoded signature annotation); ClickOnce and VSIX are not",
                        "tokens are built by the harness's own CMS encoder; time points are 30 days apart, 'now' never coincides with a certificate boundary"]
    return run.finish()


def replay(path):
    vh = build_vh()
    obj = json.load(open(path))
    run = Run("C10", "model_checking", "quick")
    sub = "replay-tsverify" if obj["key"].get("engine") == "timestamp-verify" else "replay-timestamp"
    _feed(run, vh, sub, [obj["replay"]], "replay")
    for _, desc, _ in run.violations:
        print(desc)
    return 1 if run.violations else 0
