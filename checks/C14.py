"""C14 — concurrent requests are isolated and race-free.
TLC: spec/Relic.tla (request life cycle x key cache x shutdown, 3 interleaved requests), TokenCache (2 clients),
AuditLog (3 appenders) + negative controls.  Binding (B): the real server built with the race detector under
concurrent mixed load; every client verifies ITS response against ITS body/key/digest; hook traces validated by
SignServer_Trace / TokenCache_Trace; a real daemon.Daemon closed while requests are in flight validated by Relic_Trace."""
import json, os, re, subprocess, concurrent.futures as cf
from vlib.common import *
from checks.C06 import validate_signserver, absorb

RACE_ENV = {"GORACE": "halt_on_error=1 exitcode=66"}


def race_run(run, vhr, args, label, d, want_trace=True):
    tr = os.path.join(d, label + ".ndjson")
    a = ["signsrv"] + (["-trace", tr] if want_trace else []) + args
    r = run_vh(vhr, a, env=dict(RACE_ENV, VERIF_TMP=d), timeout=1200)
    err = r.stderr.decode(errors="replace")
    if r.returncode == 66 or "WARNING: DATA RACE" in err:
        m = re.search(r"WARNING: DATA RACE.*?\n\s+(\S+)\(\)\n", err, re.S)
        frames = re.findall(r"\n\s+(github\.com/sassoftware/relic/v8/\S+?)\(\)", err)
        top = frames[0] if frames else (m.group(1) if m else "?")
        run.violation({"engine": "race-detector", "site": top},
                      f"{label}: the Go race detector reported a data race in the server ({top}):\n" + err[:3000], {"args": a, "report": err[:6000]})
        return None, []
    o = parse_vh_json(r, label)
    lines = [json.loads(l) for l in open(tr)] if want_trace and os.path.exists(tr) else []
    cache = [json.loads(l) for l in open(tr + ".cache")] if want_trace and os.path.exists(tr + ".cache") else []
    return o, (lines, cache)


def validate_cache(run, cache_events, label):
    by = {}
    for e in cache_events:
        by.setdefault(e.get("c"), []).append(e)
    for c, es in by.items():
        lines = [{"ev": e["ev"], "name": e.get("name", ""), "want": e.get("want", ""), "id": e.get("id", ""), "ok": bool(e.get("ok", False))} for e in es]
        ok, consumed, total, res = validate_trace("TokenCache_Trace", "TokenCache_Trace.cfg", lines, timeout=600, dfs=False)
        run.add_tlc(res, f"trace cache {label}")
        if ok:
            run.cov["traces_validated_against_impl"] += 1
            run.cov["cache_events"] = run.cov.get("cache_events", 0) + total
        else:
            idx = consumed or 0
            run.violation({"engine": "tokencache-trace", "event": lines[idx]["ev"] if idx < len(lines) else "?"},
                          f"{label}: events of one token cache are not a behaviour of TokenCache at event #{idx+1}: {lines[idx] if idx < len(lines) else None} "
                          f"(calls interleaved inside the mutex, a hit returning another entry, or a pinned id mishandled)",
                          {"prefix": lines[max(0, idx - 5): idx + 1]})


def validate_relic(run, lines, label):
    ok, consumed, total, res = validate_trace("Relic_Trace", "Relic_Trace.cfg", lines, timeout=600, dfs=False)
    run.add_tlc(res, "trace " + label)
    if ok:
        run.cov["traces_validated_against_impl"] += 1
        run.cov["trace_events"] = run.cov.get("trace_events", 0) + total
        return
    idx = consumed if consumed is not None else 0
    nxt = lines[idx] if idx < len(lines) else {}
    what = res.violated or "no-matching-action"
    run.violation({"engine": "relic-trace", "invariant": what, "event": nxt.get("ev", "?")},
                  f"{label}: trace of the real daemon rejected by Relic ({what}) at event #{idx+1}: "
                  f"{json.dumps({k: v for k, v in nxt.items() if v not in ('', [], False, 0)})}", {"prefix": lines[max(0, idx - 6): idx + 1]})


def run(t):
    run = Run("C14", "model_checking", t)
    vhr = build_vh(race=True)
    for mod, cfg in (("Relic_MC", "Relic_MC.cfg"), ("Relic_MC", "Relic_Live.cfg"), ("TokenCache_MC", "TokenCache_MC.cfg"), ("AuditLog_MC", "AuditLog_code.cfg")):
        r = run_tlc(mod, cfg, timeout=900, want_beh=False)
        tlc_must_pass(r, cfg)
        run.add_tlc(r, cfg)
    negs = [("Relic_MC", "Relic_Neg_CloseTokensFirst.cfg"), ("Relic_MC", "Relic_Neg_CacheByToken.cfg"), ("Relic_MC", "Relic_Neg_ServeReturnsEarly.cfg"),
            ("TokenCache_MC", "TokenCache_Neg_NoMutex.cfg"), ("AuditLog_MC", "AuditLog_TwoWrites.cfg")]
    for mod, cfg in negs:
        tlc_must_fail(run_tlc(mod, cfg, timeout=300, want_beh=False, workers=4), cfg)
    run.cov["negative_controls"] = [c for _, c in negs]
    d = scratch("c14")
    try:
        n = 300 if t == "quick" else 2000
        nseeds = 3 if t == "quick" else 12
        jobs = []
        # cold start: many first requests at once, no client-side use of relic code (race detector)
        for i in range(3 if t == "quick" else 8):
            jobs.append((f"coldstart-{i}", ["-raw", "-n", "64", "-c", "64", "-verify=false"], False))
        jobs.append(("mix", ["-n", str(n), "-c", "16", "-cache", "1", "-rate", "300", "-mix"], True))
        jobs.append(("mix-nocache", ["-n", str(n // 2), "-c", "32", "-cache", "-1", "-mix"], True))
        # the interleaving A.Sign, (B.Recv .. B.Respond)*, A.Respond of SignServer.tla made to happen: per signature type,
        # every 8th request is held (scheduler gate in the SignDone hook) between its signature and its audit record /
        # response until 16 other requests of that type were signed; what A then sends must still be A's signature
        for ty in ("pgp", "ps", "jar", "pe-coff", "apk"):
            jobs.append((f"held-{ty}", ["-n", "64" if t == "quick" else "320", "-c", "16", "-type", ty, "-hold", "8:16"], True))
        for i in range(nseeds):
            jobs.append((f"shutdown-{i}", ["-shutdown", "-tokendelay", "30ms", "-n", "200", "-c", "16"], True))
        results = {}
        with cf.ThreadPoolExecutor(3) as ex:
            futs = {}
            for k, (label, args, tr) in enumerate(jobs):
                env_seed = seed() * 100 + k
                futs[label] = ex.submit(lambda a=args, l=label, tr=tr, s=env_seed: race_run_seeded(run, vhr, a, l, d, tr, s))
            for label, f in futs.items():
                results[label] = f.result()
        # one real Cache hammered with pinned/unpinned lookups under rotation + expiry (race build)
        for i in range(2 if t == "quick" else 6):
            tr = os.path.join(d, f"stress-{i}.ndjson")
            rr = run_vh(vhr, ["cache-stress", "-n", "3000" if t == "quick" else "20000", "-c", "8", "-trace", tr],
                        env=dict(RACE_ENV, VERIF_TMP=d, VERIF_SEED=str(seed() * 10 + i)), timeout=900)
            err = rr.stderr.decode(errors="replace")
            if rr.returncode == 66 or "WARNING: DATA RACE" in err:
                frames = re.findall(r"\n\s+(github\.com/sassoftware/relic/v8/\S+?)\(\)", err)
                run.violation({"engine": "race-detector", "site": frames[0] if frames else "?"},
                              f"cache-stress: data race in {frames[0] if frames else '?'}", {"report": err[:6000]})
                continue
            o = parse_vh_json(rr, "cache-stress")
            absorb(run, o)
            evs = [json.loads(l) for l in open(tr)]
            lines = [{"ev": e["ev"], "name": e.get("name", ""), "want": e.get("want", ""), "id": e.get("id", ""), "ok": bool(e.get("ok", False)), "c": "stress"} for e in evs]
            validate_cache(run, lines, f"cache-stress-{i}")
        for label, (o, data) in results.items():
            if o is None:
                continue
            absorb(run, o)
            run.cov.setdefault("verified_responses", 0)
            run.cov["verified_responses"] += o["extra"].get("verified", 0)
            if label.startswith("held-"):
                h = run.cov.setdefault("held_requests", {"held": 0, "released_by_others": 0})
                h["held"] += o["extra"].get("held", 0)
                h["released_by_others"] += o["extra"].get("held_released_by_others", 0)
                if o["extra"].get("held_released_by_others", 0) == 0 and not run.violations:
                    raise NoVerdict(f"{label}: no held request was overtaken by others")
            if not data:
                continue
            lines, cache = data
            if label.startswith("shutdown"):
                validate_relic(run, lines, label)
                run.cov.setdefault("shutdown_runs", []).append({"accepted_and_answered": o["extra"].get("ok"), "refused_after_shutdown": o["extra"].get("refused_after_shutdown")})
            elif lines:
                if len(lines) > 1400:   # trace validation is quadratic in the number of requests: validate a window
                    lines = window(lines, 200)
                validate_signserver(run, lines, label)
            if cache:
                validate_cache(run, cache, label)
            if label == "mix":
                run.sample([{k: v for k, v in e.items() if v not in ("", [], False, 0)} for e in lines[1:6]])
    finally:
        shutil.rmtree(d, ignore_errors=True)
    run.cov["rule"] = ("race-detector build of the harness+server; cold-start bursts of 64 simultaneous first requests; mixed load (sign over "
                       "3 key names x 4 signature types x 3 digests, list_keys, keys/{k}, health) with 16-32 clients, cache expiry 1 s, "
                       "rate limiter, rotating key ids; per signature type a run in which every 8th request is held between signature and response until 16 others were signed; every client applies the returned patch to ITS body and verifies leaf certificate "
                       "and digest; daemon.Close() at a seeded moment with slow token signatures; traces validated by SignServer_Trace, "
                       "TokenCache_Trace (per cache instance) and Relic_Trace. evaluations = requests issued")
    run.assumptions += ["interleavings inside net/http and the Go runtime are not modelled; the race detector sees only the schedules that occurred",
                        "file and fake tokens only (no PKCS#11/cloud tokens)"]
    return run.finish()


def race_run_seeded(run, vhr, args, label, d, want_trace, s):
    tr = os.path.join(d, label + ".ndjson")
    a = ["signsrv"] + (["-trace", tr] if want_trace else []) + args
    r = run_vh(vhr, a, env=dict(RACE_ENV, VERIF_TMP=d, VERIF_SEED=str(s)), timeout=1200)
    err = r.stderr.decode(errors="replace")
    if r.returncode == 66 or "WARNING: DATA RACE" in err:
        frames = re.findall(r"\n\s+(github\.com/sassoftware/relic/v8/\S+?)\(\)", err)
        top = frames[0] if frames else "?"
        run.violation({"engine": "race-detector", "site": top},
                      f"{label}: the Go race detector reported a data race in the server ({top})", {"args": a, "report": err[:8000]})
        return None, None
    o = parse_vh_json(r, label)
    lines = [json.loads(l) for l in open(tr)] if want_trace and os.path.exists(tr) else []
    cache = [json.loads(l) for l in open(tr + ".cache")] if want_trace and os.path.exists(tr + ".cache") else []
    return o, (lines, cache)


def window(lines, nreq):
    """keep the Config line, all events of the first nreq request ids, and End"""
    keep, rids = [lines[0]], []
    for e in lines[1:]:
        if e["ev"] == "Request" and e["rid"] not in rids and len(rids) < nreq:
            rids.append(e["rid"])
    s = set(rids)
    for e in lines[1:]:
        if e["ev"] == "End" or e.get("rid") in s:
            keep.append(e)
    return keep


def replay(path):
    print(json.dumps(json.load(open(path)), indent=1)[:6000])
    print("re-run: ./check C14")
    return 0
