"""C04 — a key is used only for callers entitled to it.
TLC: spec/Authz.tla exhaustive over configurations x requests (OnlyEntitled, RefusedOtherwise, EntitledServed,
ListingExact, UntrustedHeadersInert, AddrIsTrue, PureAgrees) + negative controls. Binding (A): for each generated
configuration a real server is built from real YAML and every request of the request space (6720) is driven
through Handler(); status, calls reaching the (fake) token, listing and audited client address are compared.
Policy mode (server.policyurl, internal/authmodel/opa.go): spec/PolicyAuth.tla (OnlyEntitled, EntitledServed, FailClosed,
AskedOnlyWithCredential, InputFaithful, StatusRight, ListingExact, AuditNamesSubject; liveness Terminates) + 9 negative
controls; every behaviour (request x policy answer) goes through a real server whose policy URL is a scripted stand-in
for the Open Policy Agent, in both URL forms."""
import json, os, concurrent.futures as cf
from vlib.common import *

# a deviation usually breaks several invariants; which one TLC reports first depends on the search order
PNEG = [("FailOpen", ("OnlyEntitled", "FailClosed", "StatusRight")), ("IgnoreAllow", ("OnlyEntitled", "StatusRight", "ListingExact")),
        ("HeaderFromAnyone", ("StatusRight", "InputFaithful", "AskedOnlyWithCredential", "OnlyEntitled")),
        ("AskWithoutCredential", ("AskedOnlyWithCredential", "StatusRight", "OnlyEntitled")),
        ("AliasOwnName", ("OnlyEntitled", "EntitledServed", "StatusRight", "ListingExact")), ("ListHidden", ("ListingExact",)), ("Always403", ("StatusRight",)),
        ("AskForOpenEndpoints", ("StatusRight", "AskedOnlyWithCredential")), ("LastOfChain", ("InputFaithful", "OnlyEntitled", "StatusRight")), ("RememberPrior", ("OnlyEntitled", "StatusRight", "ListingExact")), ("AnyScheme", ("AskedOnlyWithCredential", "InputFaithful", "StatusRight", "OnlyEntitled"))]
NEG = ["NoRoleCheck", "AliasOwnRoles", "TwoHops", "HeaderFromAnyone", "PrefixTrust6", "ListHidden", "IgnoreEKU", "TouchFirst"]


def _replay(run, vh, behs, label):
    d = scratch("c04")
    try:
        p = os.path.join(d, "beh.jsonl")
        with open(p, "w") as f:
            for b in behs:
                f.write(json.dumps(b) + "\n")
        shards = max(1, min(NCPU, len(behs)))
        with cf.ThreadPoolExecutor(shards) as ex:
            futs = [ex.submit(run_vh, vh, ["replay-authz", p, str(i), str(shards)], None, 3000, {"VERIF_TMP": d}) for i in range(shards)]
            outs = [parse_vh_json(f.result(), label) for f in futs]
    finally:
        shutil.rmtree(d, ignore_errors=True)
    got = sum(o["extra"]["behaviours_read"] for o in outs)
    nfail = sum(len(o["failures"]) for o in outs)
    if got != len(behs) and nfail == 0:
        raise NoVerdict(f"{label}: replayed {got} of {len(behs)} configurations")
    for o in outs:
        run.cov["evaluations"] += o["evaluations"]
        run.cov["distinct_nontrivial"] += o["distinct_nontrivial"]
        run.cov["traces_validated_against_impl"] += o["counters"].get("configs", 0)
        for s in o["samples"][:1]:
            run.sample(s)
        for f in o["failures"]:
            run.violation(f["key"], f["desc"], f["replay"])


def _policy(run, vh, t, rnd):
    r = run_tlc("PolicyAuth_MC", "PolicyAuth_MC.cfg", timeout=900, want_beh=False)
    tlc_must_pass(r, "PolicyAuth_MC")
    run.add_tlc(r, "PolicyAuth mc (14 endpoint/name forms x 5 Authorization headers x 3 routes x 3 TLS chains x 4 header chains x 18 policy answers, plus a reused connection and a prior caller; liveness Terminates)")
    negs = PNEG if t == "thorough" else rnd.sample(PNEG, 4)
    for v, inv in negs:
        tlc_must_fail(run_tlc("PolicyAuth_MC", f"PolicyAuth_Neg_{v}.cfg", timeout=300, want_beh=False, workers=2), v, expect=inv)
    run.cov["negative_controls"] += [v for v, _ in negs]
    g = run_tlc("PolicyAuth_Gen", "PolicyAuth_Gen.cfg", timeout=900)
    tlc_must_pass(g, "PolicyAuth_Gen")
    run.add_tlc(g, "PolicyAuth gen")
    if len(g.beh) < 40000:
        raise NoVerdict(f"only {len(g.beh)} PolicyAuth behaviours")
    d = scratch("c04p")
    try:
        p = os.path.join(d, "beh.jsonl")
        with open(p, "w") as f:
            for b in g.beh:
                f.write(json.dumps(b) + "\n")
        shards = 8
        with cf.ThreadPoolExecutor(shards) as ex:
            futs = [ex.submit(run_vh, vh, ["replay-policy", p, str(i), str(shards)], None, 1800, {"VERIF_TMP": d}) for i in range(shards)]
            outs = [parse_vh_json(f.result(), "replay-policy") for f in futs]
    finally:
        shutil.rmtree(d, ignore_errors=True)
    fails = [f for o in outs for f in o["failures"]]
    got = sum(o["extra"].get("behaviours_read", 0) for o in outs)
    if got != len(g.beh) and not fails:
        raise NoVerdict(f"policy mode: replayed {got} of {len(g.beh)}")
    kinds = {}
    for o in outs:
        for k, v in o["counters"].items():
            if k.startswith("pol_"):
                kinds[k] = kinds.get(k, 0) + v
    if len(kinds) < 9 and not fails:
        raise NoVerdict(f"policy answers covered: {kinds}")
    for o in outs:
        run.cov["evaluations"] += o["evaluations"]
        run.cov["distinct_nontrivial"] += o["distinct_nontrivial"]
        run.cov["traces_validated_against_impl"] += o["evaluations"]
    run.cov["policy_answers"] = kinds
    for s_ in outs[0]["samples"][:1]:
        run.sample(s_)
    o = {"failures": fails}
    for f in o["failures"]:
        run.violation(f["key"], f["desc"], f["replay"])
    return len(g.beh)


def run(t):
    run = Run("C04", "model_checking", t)
    vh = build_vh()
    cfg = "Authz_MCq.cfg" if t == "quick" else "Authz_MC.cfg"
    r = run_tlc("Authz_MC", cfg, timeout=1800, want_beh=False, heap="24g")
    tlc_must_pass(r, cfg)
    run.add_tlc(r, cfg)
    rnd = random.Random(seed())
    negs = NEG if t == "thorough" else rnd.sample(NEG, 3)
    for v in negs:
        tlc_must_fail(run_tlc("Authz_MC", f"Authz_Neg_{v}.cfg", timeout=600, want_beh=False, heap="8g"), v)
    run.cov["negative_controls"] = negs
    mod = 100 if t == "quick" else 8
    sel = seed() % mod
    tmpl = open(os.path.join(SPEC, "gen", "Authz_Gen.cfg.tmpl")).read()
    g = run_tlc("Authz_Gen", "Authz_Gen_run.cfg", timeout=3000, heap="24g",
                files={"Authz_Gen_run.cfg": tmpl.replace("@MOD@", str(mod)).replace("@SEL@", str(sel))})
    tlc_must_pass(g, "Authz_Gen")
    run.add_tlc(g, f"gen Mod={mod} Sel={sel}")
    if not g.beh:
        raise NoVerdict("no configurations generated")
    run.cov["configurations"] = len(g.beh)
    _replay(run, vh, g.beh, "authz")
    npol = _policy(run, vh, t, rnd)
    run.cov["rule"] = (f"configurations = 3 key entries over 18 shapes (real x role subsets x hide, token-less, alias to any entry or "
                       f"to a missing one x hide) x client role choices, sampled by hash % {mod} = {sel} ({len(g.beh)} of ~35k); for each, "
                       "ALL 6720 requests (endpoint x key name x peer {untrusted, IPv4 proxy, its classful neighbour, bare-IPv6 proxy, a host in its /32} x X-Forwarded-For x TLS identity x "
                       "Ssl-Client-Cert identity incl. malformed) through the real Handler; expected outcome computed by the "
                       "specification; non-trivial = request succeeds or comes from the trusted proxy. Policy mode: all "
                       f"{npol} behaviours of PolicyAuth (6 endpoints x 5 key names x Authorization header {{absent, Bearer, bearer, Basic, empty}} x route {{direct, trusted proxy, "
                       "stranger sending proxy headers}} x TLS certificate or two-certificate chain x header certificate or chain incl. malformed x {{fresh connection, the same request a second time on the connection}} x {{no prior request, a prior caller who was allowed everything}} x policy answer {allow with 2 role sets x 5 allowed_keys sets, four kinds "
                       "of deny carrying grants that must mean nothing, undefined decision, HTTP 500, connection reset, truncated JSON}) on a real server with the built-in client "
                       "table granting both certificates everything; compared: status, policy asked or not and the input it received (path, key, token, fingerprint, chain, request "
                       "shape for package and default-decision URLs), token calls, listing, audit record (subject, issuer, decision id, client address)")
    run.cov["exhaustive"] = False
    run.assumptions += ["token cache disabled (tokencacheseconds: -1) so that calls reaching the token are observable per request",
                        "configurations with two matching CA clients excluded (map order decides)",
                        "policy mode: one fixed key configuration (real, alias, hidden); the policy service is a stand-in that answers what the behaviour says - what a real OPA would decide is outside relic; a policy service that never answers is not scripted (the request then lasts until the caller gives up)",
                        "policy mode: allowed_keys is matched against the name of the entry an alias resolves to (as doc/opa.md's 'the key's name' is implemented); an alias name in allowed_keys grants nothing",
                        "alias entries carry no roles (server.New refuses such configurations at start-up)"]
    return run.finish()


def replay(path):
    obj = json.load(open(path))
    vh = build_vh()
    rp = obj["replay"]
    # re-run the whole configuration of the failing request
    g = {"keys": rp["keys"], "croles": rp["croles"]}
    print(json.dumps(obj, indent=1)[:3000])
    print("re-run: ./check C04 (the failing configuration is re-derived from the specification)")
    return 0
