"""C03 — signing never corrupts or alters the payload.
Binding (A): after every successful signing of the SignPipeline cases and histories the output is opened by an
independent reader (Go archive/zip, debug/pe, own ar / rpm / koly / script-text walkers) and every payload item must
equal the original input's, in order; runs repeated under CPU contention to exercise the rewrite path's schedules."""
from vlib.common import *
from vlib import pipeline

READERS = {"jar", "apk", "xap", "vsix", "appx", "pe-dll", "pe-exe", "ps1", "ps1xml", "mof", "deb", "rpm", "dmg", "pgp-clearsign", "msi", "cab"}


def run(t):
    run = Run("C03", "model_checking", t)
    vh = build_vh()
    pipeline.model_check(run, quick_negs=["DropsPayload", "RefuseMutates"])
    c1 = pipeline.gen_cases(run, "SignPipeline_Gen1.cfg")
    c3 = pipeline.gen_cases(run, "SignPipeline_Gen3.cfg")
    rnd = random.Random(seed())
    h = [c for c in c3 if sum(1 for r in c["rounds"] if r["outcome"] == "ok") >= 2]
    rnd.shuffle(h)
    # (a refused input SHAPE is kept: should relic sign it after all, the payload readers must see the result)
    cases = [c for c in c1 if c["rounds"][0]["outcome"] == "ok" or c.get("variant") == "datareserve"] + h[: (600 if t == "quick" else len(h))]
    # schedule-dependent corruption (upload goroutine vs Apply on the same file): repeat the rewrite-heavy types under contention
    own = ("refused-supported", "signed-unverifiable")
    cnt = pipeline.replay(run, vh, cases, "C03", shards=8, extra_owned=())
    heavy = [c for c in c3 if c["type"] in ("dmg", "macho", "jar", "apk", "appx")]   # vsix/xap re-signing is a C08 known finding
    for rep in range(2 if t == "quick" else 6):
        pipeline.replay(run, vh, heavy, "C03", shards=16, label=f"contention-{rep}", extra_owned=own)
    if cnt.get("payload_checked", 0) < 500:
        raise NoVerdict("too few payload comparisons: vacuous")
    run.cov["types_with_independent_reader"] = sorted(READERS)
    run.cov["rule"] = ("successful single signings (all types x keys x digests x modes) and re-signing histories; after each, payload items "
                       "(zip members minus signature metadata; PE headers minus checksum/certificate entry, sections, overlay; script text; "
                       "ar members minus _gpg*; rpm lead + header + payload; dmg data + plist; every msi stream and storage but the two signature streams, with metadata; cab folders, files and checksummed data blocks) must equal the original input's, in order, per an "
                       "independent reader, for same-path and new-path output; plus the rewrite-heavy types repeated with 16 processes "
                       "competing for CPU. non-trivial = a payload comparison was made")
    run.assumptions += ["cat, manifest, mach-o, pkg payloads are covered only by relic's own verifier here",
                        "input layouts are the repository fixtures; generated layouts come with C17/C18"]
    return run.finish()


def replay(path):
    import json
    print(json.dumps(json.load(open(path)), indent=1)[:3000]); print("re-run: ./check C03"); return 0
