"""C01 — every signature relic produces verifies, for every format, key and digest.
Model: spec/SignPipeline.tla (case enumeration + three-valued support oracle). Binding (A): every case
(21 package types x 5 key types x 6 digests x {standalone, server}) replayed through the real pipelines:
sign, relic verify with integrity + chain checking against the generated root, named certificate and digest,
refusals leave the input untouched."""
from vlib.common import *
from vlib import pipeline


def run(t):
    run = Run("C01", "model_checking", t)
    vh = build_vh()
    pipeline.model_check(run)
    cases = pipeline.gen_cases(run, "SignPipeline_Gen1.cfg")
    c = pipeline.replay(run, vh, cases, "C01", shards=8)
    if c.get("signed_verified", 0) < 500:
        raise NoVerdict(f"only {c.get('signed_verified')} sign+verify operations succeeded: replay is vacuous")
    if t == "thorough":
        for rep in range(3):   # repeat under CPU contention (16 shards) to shake out schedule-dependent failures
            pipeline.replay(run, vh, cases, "C01", shards=16, label=f"contention-{rep}")
    run.cov["rule"] = (f"all {len(cases)} cases of SignPipeline_Gen1.cfg: package type (jar, apk, pe dll/exe, msi, cab, cat, ps1/ps1xml/mof, "
                       "ClickOnce manifest, vsix, appx, xap, mach-o, dmg, pkg, deb, rpm, pgp detached/clearsign) x key (RSA-2048/3072, "
                       "P-256/384/521; PGP: RSA) x digest (md5..sha512) x mode (standalone call sequence / real server handler + client "
                       "transform); supported => must sign and verify (integrity + chain to the generated root, leaf = configured "
                       "certificate, digest = requested); unsupported => refusal with the input bytes and mtime untouched, or a result "
                       "that verifies. non-trivial = signing succeeded")
    run.cov["exhaustive"] = True
    run.assumptions += ["one fixture layout per type (the repository's functest packages); layout variety is exercised by C17/C18/C03 generators",
                        "file token here; a PKCS#11 token (through real worker processes) signs and verifies the same package mix in the signing-server run of X04 (server-on-workers), an AWS KMS key signs ps1 / jar / PE / MSI in X05; scdaemon, Google and Azure tokens sign no whole package anywhere"]
    return run.finish()


def replay(path):
    import json
    print(json.dumps(json.load(open(path)), indent=1)[:3000]); print("re-run: ./check C01"); return 0
