"""C16 — CMS structures survive parsing and re-encoding bit-exactly.
TLC: spec/Cms.tla (third-party value shapes x the operations relic performs on parsed values; which parts are captured raw,
which are re-encoded) with SignedPartsSame, MandatoryAttrsOnce, RefuseOnlyWhenJustified and 5 negative controls.
Binding (A): every generated (shape, operation) is concretised by a harness-owned TLV encoder, run through the real
pkcs7.Unmarshal/Marshal/Detach, pkcs9.ParseResponse/TimestampAndMarshal (incl. the cache's marshal/unmarshal) and the
catalog signer, and the result is taken apart by a harness-owned TLV walker: each part must be what the model says
(byte-identical / absent / refused). Third-party signatures are re-verified (own code and openssl cms). Every CMS value
relic itself writes must re-encode to itself."""
import json, os, concurrent.futures as cf
from vlib.common import *
from checks.C15 import _absorb

NEG = [("SortSignedAttrs", "SignedPartsSame"), ("NoSignerRaw", "SignedPartsSame"), ("DropUnparsableCert", "SignedPartsSame"),
       ("DoubleDigestAttr", "MandatoryAttrsOnce"), ("ReencodeContent", "SignedPartsSame"), ("DetachAsData", "SignedPartsSame"),
       ("ShortFormAt128", ("DigestedAsEmitted", "RefuseOnlyWhenJustified"))]


def _shard(vh, behs, i, n):
    d = scratch("c16")
    try:
        p = os.path.join(d, "beh.jsonl")
        with open(p, "w") as f:
            for b in behs:
                f.write(json.dumps(b) + "\n")
        return parse_vh_json(run_vh(vh, ["cms-replay", p, str(n)], env={"VERIF_TMP": d, "VERIF_SEED": str(seed() * 100 + i)}, timeout=3000), f"cms-replay {i}")
    finally:
        shutil.rmtree(d, ignore_errors=True)


def run(t):
    run = Run("C16", "model_checking", t)
    vh = build_vh()
    r = run_tlc("Cms_MC", "Cms_MC.cfg", timeout=900, want_beh=False)
    tlc_must_pass(r, "Cms_MC")
    run.add_tlc(r, "Cms mc (31104 shapes x 5 operations; liveness Terminates)")
    for v, inv in NEG:
        tlc_must_fail(run_tlc("Cms_MC", f"Cms_Neg_{v}.cfg", timeout=300, want_beh=False, workers=4), v, expect=inv)
    run.cov["negative_controls"] = [v for v, _ in NEG]
    r = run_tlc("Cms_MC", "Cms_MC_Len.cfg", timeout=300, want_beh=False, workers=4)
    tlc_must_pass(r, "Cms_MC_Len")
    run.add_tlc(r, "Cms mc, signed-attribute lengths at the DER length-form boundaries (108 shapes x 5 operations)")
    gl = run_tlc("Cms_Gen", "Cms_Gen_Len.cfg", timeout=300, workers=4)
    tlc_must_pass(gl, "Cms_Gen_Len")
    run.add_tlc(gl, "Cms gen (lengths)")
    if len(gl.beh) != 540:
        raise NoVerdict(f"{len(gl.beh)} length behaviours, expected 540")
    g = run_tlc("Cms_Gen", "Cms_Gen.cfg", timeout=900)
    tlc_must_pass(g, "Cms_Gen")
    run.add_tlc(g, "Cms gen")
    behs = g.beh
    if len(behs) < 150000:
        raise NoVerdict(f"only {len(behs)} Cms behaviours")
    shards = 8
    per = 900 if t == "quick" else 10 ** 6
    random.Random(seed()).shuffle(behs)
    parts = [gl.beh[i::shards] + behs[i::shards] for i in range(shards)]   # the 1080 length behaviours are always replayed, first
    with cf.ThreadPoolExecutor(shards) as ex:
        outs = list(ex.map(lambda iv: _shard(vh, iv[1], iv[0], per), enumerate(parts)))
    nrun = 0
    for o in outs:
        _absorb(run, o)
        nrun += o["counters"].get("cms_behaviours", 0)
    ops = {k: sum(o["counters"].get(k, 0) for o in outs) for k in ("op_RoundTrip", "op_Detach", "op_Embed", "op_EmbedDetach", "op_Resign", "openssl_cms_verify", "refused_as_specified")}
    if min(ops[k] for k in ("op_RoundTrip", "op_Detach", "op_Embed", "op_EmbedDetach", "op_Resign")) == 0 and not run.violations:
        raise NoVerdict(f"operation coverage {ops}")
    run.cov["operations"] = ops
    d = scratch("c16o")
    try:
        o = parse_vh_json(run_vh(vh, ["cms-own"], env={"VERIF_TMP": d}, timeout=900), "cms-own")
    finally:
        shutil.rmtree(d, ignore_errors=True)
    _absorb(run, o)
    if o["counters"].get("own_with_attrs", 0) < 10 and not run.violations:
        raise NoVerdict(f"own outputs: {o['counters']}")
    d = scratch("c16l")
    try:
        o = parse_vh_json(run_vh(vh, ["cms-attrlen"], env={"VERIF_TMP": d}, timeout=900), "cms-attrlen")
    finally:
        shutil.rmtree(d, ignore_errors=True)
    _absorb(run, o)
    if o["counters"].get("boundary_lengths", 0) < 6 and not run.violations:
        raise NoVerdict(f"attribute lengths: {o['counters']}")
    run.cov["attr_lengths"] = o["counters"]
    run.cov["rule"] = (f"{nrun} of {len(behs) + len(gl.beh)} (shape, operation) behaviours (seeded sample in quick, all in thorough; non-DER shapes, which must simply be "
                       "refused, capped at a tenth of a sample): shape = signed-attribute order x certificates 0..2 x opaque extra certificate x CRL x "
                       "TSA key RSA/ECDSA/RSA-PSS x digest parameters NULL/absent x signing time UTC/Generalized/none x multi-valued attribute x nested "
                       "unsigned token x digest-algorithm SET one/sorted/unsorted x DER/long-form/indefinite lengths x content octets plain / themselves shaped like an OCTET STRING; operations RoundTrip, Detach, Embed "
                       "(real NewRequest/ParseResponse/TimestampAndMarshal, CMS and Authenticode attribute, with and without the cache's "
                       "marshal/unmarshal), EmbedDetach, Resign (catalog signer). Per part: byte equality as the model predicts; canonical DER values "
                       "must re-encode to themselves entirely; third-party and relic signatures re-verified over the emitted bytes; openssl cms "
                       "-verify on 1/16 of the cases; third-party values whose signed attributes take exactly 127, 128, 129, 255, 256, 257 bytes (x order x key x time form, all five operations, always replayed) and relic-built signer infos with every attribute length from about 80 to 300 bytes, verified over the attributes as emitted; 32 CMS values relic writes itself (9 types x 2 keys x 2 digests) re-encode to themselves. "
                       "non-trivial = shape with at least one non-default feature")
    run.cov["exhaustive"] = t != "quick"
    run.assumptions += ["SHA-256 tokens; one signer info per value; signer identified by issuer and serial (subjectKeyIdentifier signer infos "
                        "are refused by relic's decoder: outside what it parses)",
                        "observed and recorded in the model: the catalog signer emits a signer info with no authenticated attributes",
                        "trusted: the harness TLV encoder and walker (cross-checked by relic's decoder accepting every DER shape and by openssl)"]
    return run.finish()


def replay(path):
    vh = build_vh()
    obj = json.load(open(path))
    run = Run("C16", "model_checking", "quick")
    if obj["key"].get("engine") == "cms-own":
        d = scratch("c16o")
        try:
            _absorb(run, parse_vh_json(run_vh(vh, ["cms-own"], env={"VERIF_TMP": d}), "cms-own"))
        finally:
            shutil.rmtree(d, ignore_errors=True)
    else:
        for i in range(6):
            _absorb(run, _shard(vh, [obj["replay"]], i, 1))
    for _, desc, _ in run.violations:
        print(desc)
    return 1 if run.violations else 0
