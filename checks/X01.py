"""X01 (extension, outside the twenty listed properties) - obtaining and trying a secret.
TLC: spec/SecretEntry.tla (token.Login + passprompt.Login with the keyring, and lib/certloader's PKCS#12 / PEM / OpenPGP
passphrase loops as the file token runs them): NoBlindRetry, ConfiguredPinOnce, KeyringDiscipline, EmptyNeverSubmitted,
SubmissionsBounded, Honest, ClearKeyNeverPrompts, liveness Terminates; 2 negative controls.
Binding (A): every behaviour is replayed on the real token.Login (go-keyring mock provider, recording prompt and login
fakes) or on the real filetoken.Open + GetKey over real encrypted key files; the observable interaction log, the outcome
class and the final keyring content must equal the specification's. A prompt-less (server, worker) caller is part of
the behaviour space."""
import json, os
from vlib.common import *
from checks.C15 import _absorb

NEG = [("RetrySameSecret", "NoBlindRetry"), ("StoreTyped", "KeyringDiscipline")]


def run(t):
    run = Run("X01", "model_checking", t)
    vh = build_vh()
    r = run_tlc("SecretEntry_MC", "SecretEntry_MC.cfg", timeout=900, want_beh=False)
    tlc_must_pass(r, "SecretEntry_MC")
    run.add_tlc(r, "SecretEntry mc (4 flows, <=3 answers out of 5 classes, keyring 5 states, prompt present/absent, device ok/failing; liveness Terminates)")
    for v, inv in NEG:
        tlc_must_fail(run_tlc("SecretEntry_MC", f"SecretEntry_Neg_{v}.cfg", timeout=300, want_beh=False, workers=4), v, expect=inv)
    run.cov["negative_controls"] = [v for v, _ in NEG]
    cfg = "SecretEntry_Gen.cfg" if t == "quick" else "SecretEntry_GenDeep.cfg"
    g = run_tlc("SecretEntry_Gen", cfg, timeout=1800, heap="16g")
    tlc_must_pass(g, cfg)
    run.add_tlc(g, cfg)
    if len(g.beh) < 2000:
        raise NoVerdict(f"only {len(g.beh)} SecretEntry behaviours")
    d = scratch("x01")
    try:
        p = os.path.join(d, "beh.jsonl")
        with open(p, "w") as f:
            for b in g.beh:
                f.write(json.dumps(b) + "\n")
        o = parse_vh_json(run_vh(vh, ["secret-replay", p], env={"VERIF_TMP": d}, timeout=3000), "secret-replay")
    finally:
        shutil.rmtree(d, ignore_errors=True)
    _absorb(run, o)
    if o["extra"].get("behaviours_read") != len(g.beh):
        raise NoVerdict(f"replayed {o['extra']} of {len(g.beh)}")
    flows = {k: v for k, v in o["counters"].items() if k.startswith("flow_")}
    if len(flows) < 4 and not run.violations:
        raise NoVerdict(f"flow coverage {flows}")
    run.cov["flows"] = flows
    run.cov["rule"] = (f"all {len(g.beh)} complete behaviours of {cfg} on the real code: token flow through token.Login (configured PIN right/wrong, "
                       "keyring off / empty / holding the right or a wrong PIN / failing, prompt present or nil, device accepting or erroring) and "
                       "key files through filetoken.Open+GetKey (PKCS#12, legacy-encrypted PEM, OpenPGP; encrypted or clear; intact or damaged; prompt "
                       "present or nil as the server and the worker pass it). Compared: prompts (initial / fail-prefixed text) and submissions in order, "
                       "outcome class, keyring content afterwards; a panic is a violation. non-trivial = more than one interaction")
    run.cov["exhaustive"] = True
    run.assumptions += ["keyring reads and writes are observed through their effect (value tried first, final content), not as calls: the go-keyring mock has no call hook",
                        "decrypt attempts on key files are not observable as calls: for those flows the log comparison covers prompts and outcome",
                        "a damaged OpenPGP key that still decrypts is not generated (cannot be built with the library at hand)",
                        "PEM wrong-password detection relies on the padding check; the fixture is re-encrypted until both wrong passwords are recognised"]
    return run.finish()


def replay(path):
    return run("quick")
