"""C09 — upload stream, chunking and transport never change what gets signed.
TLC: spec/Transport.tla (client request loop: failover, 406 fall-back, stale readers) and spec/ChunkHash.tla
(block-buffered digesting) with negative controls. Binding (A):
  - ChunkHash behaviours (write-size sequences) replayed on the real APK block hasher, scaled to 1 MiB blocks
  - every transformer's stream abandoned part-way and requested again (failover re-read)
  - the server-side Sign of every type fed through readers that cut the stream at chosen sizes
  - Transport behaviours driven through the real remotecmd.CallRemote against scripted front-ends (HTTP/1.1 and
    TLS+HTTP/2) that hand the surviving attempt to the real relic handler
  - the 'answered early, still draining' schedule with a large body."""
import json, os
from vlib.common import *
from checks.C15 import _absorb

NEG_T = [("Guard_compressed", "BodyIntact"), ("NonAtomicFence", "BodyIntact"), ("No406Fallback", "GiveUpRule"),
         ("FallbackKeepsIndex", "Fallback406"), ("RetryPermanent", "FailoverInOrder"), ("CompressUnasked", "ResponseEncodingOffered"),
         ("SwallowSourceError", "BodyIntact")]
NEG_C = ["CompleteGT", "KeepCount", "FlushDrops"]


def _vh(run, vh, args, label, env=None, timeout=1500, files=None):
    d = scratch("c09")
    try:
        a = list(args)
        if files is not None:
            p = os.path.join(d, "beh.jsonl")
            with open(p, "w") as f:
                for b in files:
                    f.write(json.dumps(b) + "\n")
            a = [a[0], p] + a[1:]
        e = {"VERIF_TMP": d}
        e.update(env or {})
        o = parse_vh_json(run_vh(vh, a, env=e, timeout=timeout), label)
    finally:
        shutil.rmtree(d, ignore_errors=True)
    if files is not None and o["extra"].get("behaviours_read") != len(files):
        raise NoVerdict(f"{label}: harness read {o['extra']} of {len(files)}")
    _absorb(run, o)
    return o


def run(t):
    run = Run("C09", "model_checking", t)
    vh = build_vh()
    deep = t != "quick"
    r = run_tlc("Transport_MC", "Transport_MC.cfg", timeout=900, want_beh=False)
    tlc_must_pass(r, "Transport_MC")
    run.add_tlc(r, "Transport mc (<=3 servers, retries<=4, any subset down, 4 advertised encodings, 6 response classes + a source read fault, <=5 scripted failures; liveness Terminates)")
    r = run_tlc("ChunkHash_MC", "ChunkHash_MC.cfg", timeout=900, want_beh=False)
    tlc_must_pass(r, "ChunkHash_MC")
    run.add_tlc(r, "ChunkHash mc (block 4 units, writes of 1..10 units, 14 units, 2 sections)")
    for v, inv in NEG_T:
        tlc_must_fail(run_tlc("Transport_MC", f"Transport_Neg_{v}.cfg", timeout=300, want_beh=False, workers=4), v, expect=inv)
    for v in NEG_C:
        tlc_must_fail(run_tlc("ChunkHash_MC", f"ChunkHash_Neg_{v}.cfg", timeout=300, want_beh=False, workers=4), v)
    run.cov["negative_controls"] = [v for v, _ in NEG_T] + NEG_C
    # block hasher
    cfg = "ChunkHash_GenDeep.cfg" if deep else "ChunkHash_Gen.cfg"
    g = run_tlc("ChunkHash_Gen", cfg, timeout=1200, heap="16g")
    tlc_must_pass(g, cfg)
    run.add_tlc(g, cfg)
    if not g.beh:
        raise NoVerdict("no ChunkHash behaviours")
    nch = len(g.beh)
    o = _vh(run, vh, ["chunkhash-replay", "40000" if deep else "8000"], cfg, files=g.beh)
    nch_run = o["counters"].get("chunkhash_behaviours", 0)
    # re-read after abandoning
    o = _vh(run, vh, ["transport-reread"], "reread")
    if o["counters"].get("types_reread", 0) < 20 and not run.violations:
        raise NoVerdict(f"reread covered only {o['counters']}")
    # read splits through the real signers
    o = _vh(run, vh, ["transport-splitsign"] + (["deep"] if deep else []), "splitsign", timeout=3000)
    if o["counters"].get("types_split", 0) < 20 and not run.violations:
        raise NoVerdict(f"splitsign covered only {o['counters'].get('types_split')} types")
    npat = o["extra"].get("patterns")
    # client loop
    cfg2 = "Transport_GenDeep.cfg" if deep else "Transport_Gen.cfg"
    g = run_tlc("Transport_Gen", cfg2, timeout=1200)
    tlc_must_pass(g, cfg2)
    run.add_tlc(g, cfg2)
    if not g.beh:
        raise NoVerdict("no Transport behaviours")
    ntr = len(g.beh)
    protos = {}
    for env, n in (({}, "2500" if deep else "260"), ({"VERIF_H2": "1"}, "2500" if deep else "160")):
        o = _vh(run, vh, ["transport-replay", n], cfg2 + (" h2" if env else " http/1.1"), env=env, files=g.beh, timeout=3000)
        protos.update(o["extra"].get("protocols") or {})
        if o["counters"].get("remote_signed_ok", 0) == 0 and not run.violations:
            raise NoVerdict("no remote signature succeeded")
    if "HTTP/2.0" not in protos or "HTTP/1.1" not in protos:
        raise NoVerdict(f"protocol coverage {protos}")
    # stale reader schedule
    o = _vh(run, vh, ["transport-stale", "8" if deep else "2", str(16 << 20)], "stale http/1.1", timeout=1200)
    ok1 = o["counters"].get("stale_ok", 0)
    o = _vh(run, vh, ["transport-stale", "60" if deep else "10", str(2 << 20)], "stale h2", env={"VERIF_H2": "1"}, timeout=1200)
    ok2 = o["counters"].get("stale_ok", 0)
    # the same schedule with a scheduler gate in the upload stream: the first attempt's reader is held in a Read until a later
    # attempt has read its first chunk - deterministic exposure of any reader that outlives its attempt
    held = 0
    for env in ({}, {"VERIF_H2": "1"}):
        o = _vh(run, vh, ["transport-stale", "6" if deep else "2", str(1 << 20), "gated"], "stale gated" + (" h2" if env else ""), env=env, timeout=1200)
        held += o["counters"].get("gate_held", 0)
        ok2 += o["counters"].get("stale_ok", 0)
    if held == 0 and not run.violations:
        raise NoVerdict("the scheduler gate was never reached")
    if ok1 + ok2 == 0 and not run.violations:
        raise NoVerdict("stale schedule never ran to completion")
    run.cov["rule"] = (f"{nch_run} of {nch} complete write/flush behaviours of {cfg} on the real APK block hasher, each twice (exact multiples of the "
                       "256 KiB unit against the model's block list; every write off by -1/0/+1 byte against the canonical cut); all 22 types' "
                       "upload streams abandoned at 10 cut points and requested again; every type signed in-process through "
                       f"{npat} read-size patterns (1 byte .. 1 MiB+1, around 512/4096/8192/64 KiB/1 MiB) with the verifier and the embedded "
                       f"content digests of a plain run as oracles; a seeded sample of the {ntr} behaviours of {cfg2} driven through the real "
                       "remotecmd.CallRemote over HTTP/1.1 and TLS+HTTP/2 (per attempt: server index, Content-Encoding, Accept-Encoding; "
                       "body received = transform of the input; outcome; result verifies and embeds the standalone digests); "
                       f"{ok1 + ok2} early-answer failovers with 16 MiB / 2 MiB bodies. non-trivial = more than one attempt / more than two writes")
    run.cov["exhaustive"] = False
    run.assumptions += ["key rsa2048, digest sha256 on the transport paths; 8 package types rotate over the transport behaviours",
                        "the embedded-digest oracle is a byte-pattern scan (CMS messageDigest, XML DigestValue, JAR manifest digests, APK "
                        "signing-block digests, SpcIndirectData); PGP types and cat are decided by the verifier alone",
                        "the reader of an ended attempt is held by a harness-owned gate inside the stream (third Read) until a later attempt "
                        "has read, or 400 ms: the model's StaleCheck/StaleRead interleaving made deterministic",
                        "'refused' servers are URLs on a closed local port"]
    return run.finish()


def replay(path):
    vh = build_vh()
    obj = json.load(open(path))
    run = Run("C09", "model_checking", "quick")
    eng = obj["key"].get("engine")
    if eng == "chunkhash":
        _vh(run, vh, ["chunkhash-replay"], "replay", files=[{"b": 4, "ops": obj["replay"]["ops"], "blocks": []}])
    elif eng == "reread":
        _vh(run, vh, ["transport-reread"], "replay")
    elif eng == "splitsign":
        _vh(run, vh, ["transport-splitsign"], "replay", timeout=3000)
    elif eng == "transport":
        for env in ({}, {"VERIF_H2": "1"}):
            _vh(run, vh, ["transport-replay"], "replay", env=env, files=[obj["replay"]["behaviour"]] * 8)
    else:
        _vh(run, vh, ["transport-stale", "6", str(16 << 20)], "replay")
    for _, desc, _ in run.violations:
        print(desc)
    return 1 if run.violations else 0
