"""Helpers to run the real relic binary standalone with a file token."""
import os, shutil, subprocess
from .common import REPO

KEYS = os.path.join(REPO, "functest", "testkeys")
PKGS = os.path.join(REPO, "functest", "packages")


def write_conf(d, extra=""):
    p = os.path.join(d, "relic.yml")
    with open(p, "w") as f:
        f.write(f"""tokens:
  file:
    type: file
keys:
  rsa2048:
    token: file
    keyfile: {KEYS}/rsa2048.key
    pgpcertificate: {KEYS}/rsa2048.pgp
    x509certificate: {KEYS}/rsa2048.crt
{extra}""")
    return p


def verify(relic, path, cert="rsa2048.crt", extra=None, timeout=60):
    r = subprocess.run([relic, "verify", "--cert", os.path.join(KEYS, cert)] + (extra or []) + [path],
                       capture_output=True, timeout=timeout)
    return r.returncode == 0, (r.stdout + r.stderr).decode(errors="replace")
