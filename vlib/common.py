"""Shared machinery for every ./check <ID>: build the Go harness from /repo's working tree,
run TLC in a scratch copy of spec/, move behaviours/traces between TLC and the harness,
write evidence, match known findings, print the contract lines.

Exit codes: 0 held / 1 violation reproduced on real code and not a known finding / 2 no verdict.
"""
import json, os, re, shutil, subprocess, sys, tempfile, time, hashlib, random

VERIF = os.path.dirname(os.path.dirname(os.path.abspath(__file__)))
REPO = os.environ.get("VERIF_REPO", "/repo")
SPEC = os.path.join(VERIF, "spec")
BUILD = os.path.join(VERIF, "build")
EVID = os.path.join(VERIF, "evidence")
REPLAYS = os.path.join(VERIF, "replays")
HARNESS = os.path.join(VERIF, "harness")
NCPU = os.cpu_count() or 4

GOENV = dict(os.environ, GOFLAGS="-mod=mod", GOPROXY="off", GOSUMDB="off", GOTOOLCHAIN="local",
             CGO_ENABLED="1")


class NoVerdict(Exception):
    """Raised when the machinery cannot reach a verdict (exit 2)."""


def log(*a):
    print(*a, file=sys.stderr, flush=True)


def seed():
    try:
        return int(os.environ.get("VERIF_SEED", "1"))
    except ValueError:
        return 1


def tier(argv_tier=None):
    t = argv_tier or os.environ.get("VERIF_TIER") or "quick"
    return t if t in ("quick", "thorough") else "quick"


def scratch(prefix="vf"):
    base = os.environ.get("VERIF_TMP") or tempfile.gettempdir()
    return tempfile.mkdtemp(prefix=prefix + "-", dir=base)


# ------------------------------------------------------------------------------------------
# building

def _repo_fingerprint():
    """Cheap fingerprint of /repo's working tree (go sources + go.mod) so we rebuild only when
    something changed. go build has its own cache; this only avoids the link step."""
    h = hashlib.sha256()
    out = subprocess.run(["git", "-C", REPO, "rev-parse", "HEAD"], capture_output=True, text=True).stdout
    h.update(out.encode())
    out = subprocess.run(["git", "-C", REPO, "status", "--porcelain"], capture_output=True, text=True).stdout
    h.update(out.encode())
    out = subprocess.run(["git", "-C", REPO, "diff"], capture_output=True).stdout
    h.update(out)
    # untracked files' content
    for line in subprocess.run(["git", "-C", REPO, "ls-files", "-o", "--exclude-standard"],
                               capture_output=True, text=True).stdout.splitlines():
        p = os.path.join(REPO, line)
        try:
            h.update(open(p, "rb").read())
        except OSError:
            pass
    for root, _, files in os.walk(HARNESS):
        for f in sorted(files):
            p = os.path.join(root, f)
            h.update(p.encode())
            h.update(open(p, "rb").read())
    return h.hexdigest()


def build_vh(race=False):
    """go build -tags verif the harness binary against /repo's current working tree."""
    os.makedirs(BUILD, exist_ok=True)
    name = "vh-race" if race else "vh"
    out = os.path.join(BUILD, name)
    fp = _repo_fingerprint()
    stamp = out + ".stamp"
    if os.path.exists(out) and os.path.exists(stamp) and open(stamp).read() == fp:
        return out
    shutil.copy(os.path.join(REPO, "go.sum"), os.path.join(HARNESS, "go.sum"))
    cmd = ["go", "build", "-tags", "verif", "-o", out]
    if race:
        cmd.append("-race")
    cmd.append("./cmd/vh")
    t0 = time.time()
    r = subprocess.run(cmd, cwd=HARNESS, env=GOENV, capture_output=True, text=True)
    if r.returncode != 0:
        log(r.stdout[-4000:], r.stderr[-8000:])
        raise NoVerdict("harness build failed (does /repo still compile with -tags verif?)")
    open(stamp, "w").write(fp)
    log(f"[build] {name} built in {time.time()-t0:.1f}s")
    return out


def build_p11so():
    """Compile the PKCS#11 wire module (harness/fakep11c/shim.c) against the Cryptoki headers shipped with miekg/pkcs11."""
    os.makedirs(BUILD, exist_ok=True)
    out = os.path.join(BUILD, "libfakep11.so")
    src = os.path.join(HARNESS, "fakep11c", "shim.c")
    if os.path.exists(out) and os.path.getmtime(out) >= os.path.getmtime(src):
        return out
    r = subprocess.run(["go", "list", "-m", "-f", "{{.Dir}}", "github.com/miekg/pkcs11"], cwd=REPO, env=GOENV, capture_output=True, text=True)
    inc = r.stdout.strip()
    if r.returncode != 0 or not os.path.exists(os.path.join(inc, "pkcs11.h")):
        raise NoVerdict("cannot locate the Cryptoki headers of github.com/miekg/pkcs11 in the module cache: " + r.stderr[-500:])
    r = subprocess.run(["gcc", "-shared", "-fPIC", "-O1", "-I" + inc, "-o", out, src, "-lpthread"], capture_output=True, text=True)
    if r.returncode != 0:
        log(r.stderr[-3000:])
        raise NoVerdict("the PKCS#11 wire module does not compile")
    return out


def build_relic(tags="verif", race=False):
    """Build the real relic binary from the working tree."""
    os.makedirs(BUILD, exist_ok=True)
    name = "relic" + ("-" + tags if tags else "") + ("-race" if race else "")
    out = os.path.join(BUILD, name)
    fp = _repo_fingerprint()
    stamp = out + ".stamp"
    if os.path.exists(out) and os.path.exists(stamp) and open(stamp).read() == fp:
        return out
    cmd = ["go", "build", "-o", out]
    if tags:
        cmd += ["-tags", tags]
    if race:
        cmd.append("-race")
    cmd.append(".")
    r = subprocess.run(cmd, cwd=REPO, env=GOENV, capture_output=True, text=True)
    if r.returncode != 0:
        log(r.stderr[-8000:])
        raise NoVerdict("relic build failed")
    open(stamp, "w").write(fp)
    return out


# ------------------------------------------------------------------------------------------
# TLC

class TLCResult:
    def __init__(self):
        self.rc = None
        self.out = ""
        self.generated = 0
        self.distinct = 0
        self.depth = 0
        self.beh = []          # parsed BEH json objects
        self.violated = None   # name of violated invariant/property, if any
        self.error = None
        self.coverage = {}     # action -> count (when -coverage used)
        self.wall = 0.0
        self.postcondition_failed = False


_RE_STATES = re.compile(r"(\d+) states generated, (\d+) distinct states found")
_RE_DEPTH = re.compile(r"The depth of the complete state graph search is (\d+)")
_RE_INV = re.compile(r"Error: Invariant (\S+) is violated")
_RE_PROP = re.compile(r"Error: (?:Temporal properties were violated|Temporal property (\S+) was violated|Action property (\S+) is violated)")
_RE_COV = re.compile(r"^<(\w+) line \d+, col \d+ to line \d+, col \d+ of module (\w+)>: (\d+):(\d+)", re.M)


def run_tlc(module, cfg, workers=None, timeout=600, simulate=None, depth=None, extra=None,
            beh_prefix="BEH ", files=None, coverage=False, want_beh=True, heap=None, dfs=False,
            beh_sink=None):
    """Run TLC on spec/<module>.tla with spec/<cfg> in a scratch copy of spec/.

    files: dict name->bytes of extra files dropped next to the spec (e.g. trace.ndjson).
    simulate: "num=N" style string; depth: int.
    beh_sink: optional callable(obj) invoked per BEH line instead of collecting (for big runs).
    """
    res = TLCResult()
    d = scratch("tlc")
    try:
        sd = os.path.join(d, "spec")
        shutil.copytree(SPEC, sd)
        for k, v in (files or {}).items():
            with open(os.path.join(sd, k), "wb") as f:
                f.write(v if isinstance(v, bytes) else v.encode())
        modpath = module if module.endswith(".tla") else module + ".tla"
        # modules live in subdirs (mc/, gen/, trace/); flatten into one dir so EXTENDS works
        flat = os.path.join(d, "flat")
        os.makedirs(flat)
        for root, _, fs in os.walk(sd):
            for f in fs:
                shutil.copy(os.path.join(root, f), os.path.join(flat, f))
        modfile = os.path.basename(modpath)
        cfgfile = os.path.basename(cfg)
        w = workers or NCPU
        # TLC unpacks its standard modules into java.io.tmpdir and leaves them there: keep that inside this run's scratch
        jtmp = os.path.join(d, "jtmp")
        os.makedirs(jtmp)
        cmd = ["java", "-XX:+UseParallelGC", "-Xss64m", "-Djava.io.tmpdir=" + jtmp]
        if heap:
            cmd.append("-Xmx" + heap)
        if dfs:
            cmd.append("-Dtlc2.tool.queue.IStateQueue=StateDeque")
        cmd += ["-cp", "/opt/veriftools/tla/tla2tools.jar:/opt/veriftools/tla/CommunityModules-deps.jar",
                "tlc2.TLC", "-metadir", os.path.join(d, "meta"), "-workers", str(w),
                "-config", cfgfile, "-noGenerateSpecTE"]
        if simulate:
            cmd += ["-simulate", simulate]
            if depth:
                cmd += ["-depth", str(depth)]
            cmd += ["-seed", str(seed())]
        if coverage:
            cmd += ["-coverage", "1"]
        if extra:
            cmd += list(extra)
        cmd.append(modfile)
        t0 = time.time()
        outlines = []
        p = subprocess.Popen(cmd, cwd=flat, stdout=subprocess.PIPE, stderr=subprocess.STDOUT, text=True,
                             errors="replace")
        killer = None
        try:
            import threading
            killer = threading.Timer(timeout, p.kill)
            killer.start()
            for line in p.stdout:
                if want_beh and line.startswith('"' + beh_prefix):
                    # PrintT of a string prints it quoted with escapes
                    try:
                        s = json.loads(line.strip())
                        obj = json.loads(s[len(beh_prefix):])
                        if beh_sink:
                            beh_sink(obj)
                        else:
                            res.beh.append(obj)
                    except Exception as e:  # malformed line is a harness problem
                        outlines.append("UNPARSED " + line[:300])
                    continue
                if want_beh and line.startswith(beh_prefix):
                    try:
                        obj = json.loads(line[len(beh_prefix):])
                        if beh_sink:
                            beh_sink(obj)
                        else:
                            res.beh.append(obj)
                    except Exception:
                        outlines.append("UNPARSED " + line[:300])
                    continue
                outlines.append(line)
            p.wait()
        finally:
            if killer:
                killer.cancel()
        res.wall = time.time() - t0
        res.rc = p.returncode
        res.out = "".join(outlines)
        for m in _RE_STATES.finditer(res.out):
            res.generated, res.distinct = int(m.group(1)), int(m.group(2))
        m = _RE_DEPTH.search(res.out)
        if m:
            res.depth = int(m.group(1))
        m = _RE_INV.search(res.out)
        if m:
            res.violated = m.group(1)
        m = _RE_PROP.search(res.out)
        if m and not res.violated:
            res.violated = m.group(1) or m.group(2) or "temporal"
        if "Deadlock reached" in res.out and not res.violated:
            res.violated = "Deadlock"
        if re.search(r"Postcondition \S+ .*is false", res.out) or ("Postcondition" in res.out and "violated" in res.out):
            res.postcondition_failed = True
        for m in _RE_COV.finditer(res.out):
            res.coverage[m.group(1)] = res.coverage.get(m.group(1), 0) + int(m.group(4))
        if res.rc is None or res.rc < 0 or (res.rc != 0 and res.violated is None and not res.postcondition_failed):
            if res.wall >= timeout - 1:
                res.error = "timeout"
            elif res.rc not in (0, 12, 13):
                res.error = "tlc failed rc=%s" % res.rc
        return res
    finally:
        shutil.rmtree(d, ignore_errors=True)


def tlc_must_pass(res, what):
    """Model-level check must pass; anything else is 'no verdict' about the code (exit 2) –
    a TLC counterexample on the model alone is never reported as a violation of relic."""
    if res.error:
        log(res.out[-3000:])
        raise NoVerdict(f"TLC {what}: {res.error}")
    if res.violated or res.rc != 0:
        log(res.out[-6000:])
        raise NoVerdict(f"TLC {what}: model-level failure ({res.violated or res.rc}); the specification "
                        f"needs attention, this says nothing about the code")
    if res.distinct < 1:
        log(res.out[-3000:])
        raise NoVerdict(f"TLC {what}: no states")


def tlc_must_fail(res, what, expect=None):
    """Negative control: TLC must find a counterexample."""
    if res.error:
        raise NoVerdict(f"TLC negative control {what}: {res.error}")
    if not res.violated:
        log(res.out[-3000:])
        raise NoVerdict(f"negative control {what}: TLC found no counterexample – model is vacuous")
    ok = (res.violated in expect) if isinstance(expect, (tuple, list, set, frozenset)) else (res.violated == expect)
    if expect and not ok:
        raise NoVerdict(f"negative control {what}: expected {expect}, got {res.violated}")


def check_coverage(res, required_actions, what):
    zero = [a for a in required_actions if res.coverage.get(a, 0) == 0]
    if zero:
        raise NoVerdict(f"TLC {what}: actions never taken (vacuous): {zero}")


# ------------------------------------------------------------------------------------------
# trace validation

def validate_trace(module, cfg, trace_lines, timeout=300, name="trace.ndjson", extra_files=None, dfs=True):
    """Run the trace spec on ndjson lines. Returns (accepted, consumed, total, TLCResult)."""
    data = "\n".join(json.dumps(x, sort_keys=True) if not isinstance(x, str) else x for x in trace_lines) + "\n"
    files = {name: data}
    files.update(extra_files or {})
    res = run_tlc(module, cfg, workers=1, timeout=timeout, files=files, want_beh=False, dfs=dfs)
    total = len(trace_lines)
    consumed = None
    m = re.findall(r"TRACE-HWM (\d+)", res.out)
    if m:
        consumed = max(int(x) for x in m)
    if res.error:
        log(res.out[-3000:])
        raise NoVerdict(f"trace validation {module}: {res.error}")
    accepted = (res.rc == 0 and not res.violated and not res.postcondition_failed
                and (consumed is None or consumed >= total))
    return accepted, consumed, total, res


# ------------------------------------------------------------------------------------------
# known findings

def load_known():
    p = os.path.join(VERIF, "known_findings.json")
    if not os.path.exists(p):
        return {"findings": [], "fixed": []}
    return json.load(open(p))


def match_known(prop, key):
    """key: dict describing the violation (e.g. {"type": "vsix", "history": "sign,sign"}).
    A finding matches if every field of its 'match' dict equals the violation's field."""
    for f in load_known().get("findings", []):
        if f.get("property") != prop:
            continue
        m = f.get("match", {})
        if m and all(str(key.get(k)) == str(v) for k, v in m.items()):
            return f
    return None


# ------------------------------------------------------------------------------------------
# evidence + verdict

class Run:
    def __init__(self, prop, level, tier_):
        self.prop = prop
        self.level = level
        self.tier = tier_
        self.t0 = time.time()
        self.cov = {"evaluations": 0, "distinct_nontrivial": 0, "rule": "", "samples": [],
                    "states": 0, "transitions": 0, "traces_validated_against_impl": 0}
        self.assumptions = []
        self.violations = []     # list of (key dict, description, replay path)
        self.known_hits = {}     # finding id -> finding
        self.notes = []

    def add_tlc(self, res, label=None):
        self.cov["states"] += res.distinct
        self.cov["transitions"] += res.generated
        self.cov.setdefault("tlc_runs", []).append(
            {"label": label, "distinct": res.distinct, "generated": res.generated,
             "depth": res.depth, "wall_s": round(res.wall, 1),
             "coverage": res.coverage or None})

    def sample(self, x, cap=5):
        if len(self.cov["samples"]) < cap:
            self.cov["samples"].append(x)

    def violation(self, key, desc, replay_obj=None):
        """Record a violation observed on real code. Known findings are matched by key."""
        kf = match_known(self.prop, key)
        if kf is not None:
            self.known_hits[kf["id"]] = kf
            return False
        os.makedirs(REPLAYS, exist_ok=True)
        path = os.path.join(REPLAYS, f"{self.prop}-{len(self.violations)+1}-{int(time.time())}.json")
        with open(path, "w") as f:
            json.dump({"property": self.prop, "key": key, "desc": desc, "seed": seed(),
                       "replay": replay_obj}, f, indent=1, default=str)
        self.violations.append((key, desc, path))
        return True

    def finish(self):
        os.makedirs(EVID, exist_ok=True)
        for kf in self.known_hits.values():
            print(f"KNOWN-FINDING: property={self.prop} {kf['what']}", flush=True)
        for key, desc, path in self.violations[:20]:
            print(f"VIOLATION property={self.prop} replay={path}", flush=True)
            log("  " + desc[:500])
        ev = {
            "property_id": self.prop, "tier": self.tier, "seed": seed(), "level": self.level,
            "coverage": self.cov, "assumptions": self.assumptions,
            "wall_s": round(time.time() - self.t0, 2), "violations": len(self.violations),
            "known_findings_hit": sorted(self.known_hits.keys()), "notes": self.notes,
        }
        evdir = EVID
        if self.prop.startswith("X"):
            # extension checks (behaviour outside the twenty listed properties) keep their evidence apart
            evdir = os.path.join(EVID, "ext")
            os.makedirs(evdir, exist_ok=True)
        with open(os.path.join(evdir, f"{self.prop}.json"), "w") as f:
            json.dump(ev, f, indent=1, default=str)
        return 1 if self.violations else 0


def run_vh(vh, args, stdin=None, timeout=1200, env=None, cwd=None):
    e = dict(os.environ)
    e.update(env or {})
    e.setdefault("VERIF_SEED", str(seed()))
    r = subprocess.run([vh] + args, input=stdin, capture_output=True, timeout=timeout, env=e, cwd=cwd)
    return r


def parse_vh_json(r, what):
    """The harness prints one JSON object (last line of stdout starting with '{')."""
    if r.returncode not in (0, 1):
        log(r.stderr.decode(errors="replace")[-6000:])
        raise NoVerdict(f"harness {what} died rc={r.returncode}")
    last = None
    for line in r.stdout.decode(errors="replace").splitlines():
        if line.startswith("{"):
            last = line
    if last is None:
        log(r.stderr.decode(errors="replace")[-6000:])
        raise NoVerdict(f"harness {what}: no result line")
    return json.loads(last)


def main_wrapper(fn):
    try:
        rc = fn()
    except NoVerdict as e:
        log(f"NO-VERDICT: {e}")
        sys.exit(2)
    except subprocess.TimeoutExpired as e:
        log(f"NO-VERDICT: timeout {e}")
        sys.exit(2)
    except Exception:
        import traceback
        traceback.print_exc()
        log("NO-VERDICT: internal error in the checking machinery")
        sys.exit(2)
    sys.exit(rc)
