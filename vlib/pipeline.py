"""Shared driver for the pipeline family (C01, C03, C05, C08): generate cases with TLC from
spec/SignPipeline.tla, replay them through `vh replay-pipeline` sharded over processes, route failures by kind."""
import json, os, concurrent.futures as cf
from .common import *

NEG = ["Stacks", "RefuseMutates", "DropsPayload", "WrongDigestNamed", "ProbeBlind", "SlotDropsOthers"]

OWNER = {  # failure kind -> property that owns it
    "refused-supported": "C01", "signed-unverifiable": "C01", "names-wrong-cert": "C01", "names-nothing": "C01",
    "names-wrong-digest": "C01", "refusal-touched-input": "C01", "refusal-silent": "C01", "refusal-wrote-output": "C01",
    "signature-count": "C08", "probe": "C08", "probe-unsigned": "C08", "digest-changed": "C08",
    "payload-changed": "C03", "output-malformed": "C03",
}


def owner(f):
    k = f["key"].get("kind", "")
    if k.startswith("external-"):
        return "C05"
    o = OWNER.get(k, "C01")
    if o == "C01" and f["key"].get("resign") == "yes":
        return "C08"       # the same symptom after an earlier successful signing is a re-signing failure
    return o


def model_check(run, quick_negs=None):
    r = run_tlc("SignPipeline_MC", "SignPipeline_code.cfg", timeout=600, want_beh=False, workers=8)
    tlc_must_pass(r, "SignPipeline")
    run.add_tlc(r, "SignPipeline mc")
    negs = quick_negs or NEG
    for v in negs:
        tlc_must_fail(run_tlc("SignPipeline_MC", f"SignPipeline_{v}.cfg", timeout=300, want_beh=False, workers=2), v)
    run.cov["negative_controls"] = negs


def gen_cases(run, cfg):
    g = run_tlc("SignPipeline_Gen", cfg, timeout=1800, workers=8)
    tlc_must_pass(g, cfg)
    run.add_tlc(g, cfg)
    if not g.beh:
        raise NoVerdict(cfg + ": no cases")
    return g.beh


def replay(run, vh, cases, prop, external=False, shards=8, label="pipeline", extra_owned=()):
    """returns merged counters; records violations owned by `prop`"""
    d = scratch("pipe")
    try:
        p = os.path.join(d, "cases.jsonl")
        with open(p, "w") as f:
            for c in cases:
                f.write(json.dumps(c) + "\n")
        shards = max(1, min(shards, len(cases)))
        args = lambda i: ["replay-pipeline", p] + (["external"] if external else []) + [f"shard={i}/{shards}"]
        with cf.ThreadPoolExecutor(shards) as ex:
            futs = [ex.submit(run_vh, vh, args(i), None, 3000, {"VERIF_TMP": d}) for i in range(shards)]
            outs = [parse_vh_json(f.result(), label) for f in futs]
    finally:
        shutil.rmtree(d, ignore_errors=True)
    if sum(o["extra"].get("behaviours_mine", 0) for o in outs) != len(cases):
        raise NoVerdict(f"{label}: replay incomplete")
    counters, others = {}, {}
    for o in outs:
        run.cov["evaluations"] += o["evaluations"]
        run.cov["distinct_nontrivial"] += o["distinct_nontrivial"]
        run.cov["traces_validated_against_impl"] += o["evaluations"]
        for k, v in o["counters"].items():
            counters[k] = counters.get(k, 0) + v
        for s in o["samples"][:1]:
            run.sample(s)
        for f in o["failures"]:
            ow = owner(f)
            if ow == prop or f["key"].get("kind") in extra_owned:
                run.violation(f["key"], f["desc"], f["replay"])
            else:
                others[ow] = others.get(ow, 0) + 1
    for k, v in counters.items():
        run.cov.setdefault("counters", {})[k] = run.cov.get("counters", {}).get(k, 0) + v
    if others:
        run.notes.append(f"{label}: failures owned by other properties (reported by their checks): {others}")
    return counters
