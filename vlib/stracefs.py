"""strace-based recording of file-system calls: run a command under strace -f -y, parse the log
into ordered events on classified paths (dest / input / tmpN), optionally injecting SIGKILL at the
k-th matching system call of a thread."""
import os, re, subprocess

SYSCALLS = ["openat", "open", "creat", "write", "pwrite64", "writev", "pwritev", "ftruncate", "truncate",
            "fchmod", "fchmodat", "close", "unlinkat", "unlink", "renameat", "renameat2", "rename",
            "linkat", "link", "copy_file_range", "sendfile", "splice", "fallocate"]
MODIFY = {"write", "pwrite64", "writev", "pwritev", "ftruncate", "truncate", "copy_file_range", "sendfile",
          "splice", "fallocate"}

_line = re.compile(r"^(\d+)\s+(.*)$")
_call = re.compile(r"^(\w+)\((.*)\)\s+= (-?\d+|\?)(.*)$")
_unfinished = re.compile(r"^(\w+)\((.*) <unfinished \.\.\.>$")
_resumed = re.compile(r"^<\.\.\. (\w+) resumed>(.*)$")
_fdpath = re.compile(r"^(?:\d+|AT_FDCWD)<([^>]*)>")


def run_strace(cmd, logpath, cwd=None, inject=None, env=None, timeout=120):
    st = ["strace", "-f", "-y", "-s", "0", "-o", logpath, "-e", "signal=none",
          "-e", "trace=" + ",".join(SYSCALLS)]
    if inject:
        sc, k = inject
        st += ["-e", f"inject={sc}:signal=KILL:when={k}"]
    e = dict(os.environ)
    e.update(env or {})
    r = subprocess.run(st + cmd, cwd=cwd, capture_output=True, env=e, timeout=timeout)
    return r


def _split_args(s):
    """split top-level comma separated arguments (quotes, <>, {} aware enough for our calls)"""
    out, depth, cur, q = [], 0, "", False
    i = 0
    while i < len(s):
        c = s[i]
        if q:
            cur += c
            if c == "\\":
                cur += s[i + 1]
                i += 1
            elif c == '"':
                q = False
        elif c == '"':
            q = True
            cur += c
        elif c in "<{[(":
            depth += 1
            cur += c
        elif c in ">}])":
            depth -= 1
            cur += c
        elif c == "," and depth == 0:
            out.append(cur.strip())
            cur = ""
        else:
            cur += c
        i += 1
    if cur.strip():
        out.append(cur.strip())
    return out


def _abs(dirfd_arg, path_arg):
    p = path_arg.strip()
    if p.startswith('"'):
        p = p[1:p.rindex('"')]
    if p.startswith("/"):
        return os.path.normpath(p)
    m = _fdpath.match(dirfd_arg)
    base = m.group(1) if m else "/"
    return os.path.normpath(os.path.join(base, p))


def parse(logpath):
    """Returns list of raw calls in completion order: dict(pid, name, args, ret, killed_in_flight)."""
    pending = {}
    calls = []
    killed = False
    for raw in open(logpath, errors="replace"):
        m = _line.match(raw.rstrip("\n"))
        if not m:
            continue
        pid, rest = m.group(1), m.group(2)
        if rest.startswith("+++ killed by SIGKILL"):
            killed = True
            continue
        if rest.startswith("+++") or rest.startswith("---"):
            continue
        mu = _unfinished.match(rest)
        if mu:
            pending[pid] = (mu.group(1), mu.group(2))
            continue
        mr = _resumed.match(rest)
        if mr and pid in pending:
            name, head = pending.pop(pid)
            rest = f"{name}({head}{mr.group(2)}"
        mc = _call.match(rest)
        if not mc:
            continue
        name, args, ret = mc.group(1), mc.group(2), mc.group(3)
        if ret == "?":
            killed = True   # strace propagates the SIGKILL to itself before writing the +++ line
        calls.append({"pid": pid, "name": name, "args": _split_args(args),
                      "ret": None if ret == "?" else int(ret), "raw": rest[:300]})
    # calls that never completed because the process was killed while in them
    for pid, (name, head) in pending.items():
        calls.append({"pid": pid, "name": name, "args": _split_args(head), "ret": None, "raw": name + "(" + head[:200],
                      "inflight": True})
    return calls, killed


class Classifier:
    def __init__(self, dest, inp):
        self.dest = os.path.normpath(dest)
        self.inp = os.path.normpath(inp) if inp else None
        self.tmps = {}

    def cls(self, path):
        path = path.replace(" (deleted)", "")
        if path == self.dest:
            return "dest"
        if self.inp and path == self.inp:
            return "input"
        if path.startswith(self.dest + ".tmp") or (os.path.dirname(path) == os.path.dirname(self.dest)
                                                   and ".tmp" in os.path.basename(path)):
            if path not in self.tmps:
                self.tmps[path] = "tmp%d" % min(len(self.tmps) + 1, 2)
            return self.tmps[path]
        return None


def events(calls, dest, inp):
    """Project raw calls to OutputFS events. Only successful calls change the FS; calls on paths
    outside {dest, input, temp siblings} are dropped."""
    c = Classifier(dest, inp)
    evs = []
    for call in calls:
        n, a, ret = call["name"], call["args"], call["ret"]
        if ret is None or ret < 0:
            continue
        ev = None
        if n in ("openat", "open", "creat"):
            if n == "openat":
                path, flags = _abs(a[0], a[1]), a[2] if len(a) > 2 else ""
            elif n == "open":
                path, flags = _abs("AT_FDCWD</>", a[0]), a[1] if len(a) > 1 else ""
            else:
                path, flags = _abs("AT_FDCWD</>", a[0]), "O_CREAT|O_TRUNC|O_WRONLY"
            k = c.cls(path)
            if k and ("O_CREAT" in flags or "O_TRUNC" in flags):
                ev = {"ev": "create", "path": k, "excl": "O_EXCL" in flags, "trunc": "O_TRUNC" in flags}
            elif k:
                ev = {"ev": "nop", "path": k, "what": "open"}
        elif n in MODIFY:
            # the written fd is the first arg except copy_file_range/sendfile/splice
            if n == "copy_file_range":
                fdarg = a[2]
            elif n == "sendfile":
                fdarg = a[0]
            elif n == "splice":
                fdarg = a[2]
            elif n == "truncate":
                fdarg = None
            else:
                fdarg = a[0]
            if fdarg is None:
                path = _abs("AT_FDCWD</>", a[0])
            else:
                m = _fdpath.match(fdarg)
                path = m.group(1) if m else ""
            if path.endswith(" (deleted)"):
                continue
            k = c.cls(path)
            if k and not (n in ("copy_file_range", "sendfile", "splice", "write", "pwrite64") and ret == 0):
                ev = {"ev": "modify", "path": k, "what": n}
        elif n in ("fchmod", "close"):
            m = _fdpath.match(a[0])
            k = c.cls(m.group(1)) if m else None
            if k:
                ev = {"ev": "nop", "path": k, "what": n}
        elif n in ("unlinkat", "unlink"):
            path = _abs(a[0], a[1]) if n == "unlinkat" else _abs("AT_FDCWD</>", a[0])
            k = c.cls(path)
            if k:
                ev = {"ev": "unlink", "path": k}
        elif n in ("renameat", "renameat2", "rename"):
            if n == "rename":
                p1, p2 = _abs("AT_FDCWD</>", a[0]), _abs("AT_FDCWD</>", a[1])
            else:
                p1, p2 = _abs(a[0], a[1]), _abs(a[2], a[3])
            k1, k2 = c.cls(p1), c.cls(p2)
            if k1 and k2:
                ev = {"ev": "rename", "path": k1, "path2": k2}
            elif k2:   # something foreign renamed over one of ours: treat as create of fresh content
                ev = {"ev": "create", "path": k2, "excl": False, "trunc": True}
            elif k1:
                ev = {"ev": "unlink", "path": k1}
        elif n in ("linkat", "link"):
            if n == "link":
                p1, p2 = _abs("AT_FDCWD</>", a[0]), _abs("AT_FDCWD</>", a[1])
            else:
                p1, p2 = _abs(a[0], a[1]), _abs(a[2], a[3])
            k1, k2 = c.cls(p1), c.cls(p2)
            if k1 and k2:
                ev = {"ev": "link", "path": k1, "path2": k2}
        if ev:
            ev["sys"] = call["raw"][:160]
            ev["pid"] = call["pid"]
            ev["name"] = n
            evs.append(ev)
    return evs
