#!/usr/bin/env python3
"""Second standard reader for C17: Python's zipfile must see what Go's archive/zip (and relic) saw.
usage: zipcross.py <dir with sN-aM.zip / .json pairs>; prints one JSON line {checked, failures:[...]}"""
import sys, os, json, zipfile, zlib
d = sys.argv[1]
checked, fails = 0, []
for fn in sorted(os.listdir(d)):
    if not fn.endswith(".zip"):
        continue
    exp = json.load(open(os.path.join(d, fn[:-4] + ".json")))
    try:
        with zipfile.ZipFile(os.path.join(d, fn)) as z:
            bad = z.testzip()
            if bad is not None:
                fails.append(f"{fn}: testzip reports corrupt member {bad}")
                continue
            infos = z.infolist()
            if len(infos) != len(exp):
                fails.append(f"{fn}: python sees {len(infos)} members, go/relic {len(exp)}")
                continue
            for zi, e in zip(infos, exp):
                data = z.read(zi)
                if (zi.filename, zi.file_size, zi.compress_size, zi.CRC, zi.header_offset) != (e["name"], e["usize"], e["csize"], e["crc"], e["offset"]) \
                        or (zlib.crc32(data) & 0xffffffff) != e["crc"]:
                    fails.append(f"{fn}: member {zi.filename}: python ({zi.file_size},{zi.compress_size},{zi.CRC:08x},{zi.header_offset}) vs {e}")
                    break
        checked += 1
    except Exception as ex:
        fails.append(f"{fn}: python zipfile: {ex!r}")
print(json.dumps({"checked": checked, "failures": fails[:20]}))
